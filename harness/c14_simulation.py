"""C14 - simulation and fitting agree (model identity part).

Data are produced by the real ``simulate`` (simulate_from_clp / simulate_full_model) from symbolic generating clps C
and symbolic matrices; the real fitting pipeline is then evaluated on those symbolic data.  Query: for every linear
problem handed to the solver, data = matrix x (C / dataset_scale) entry by entry - simulation and fit use the same
model including megacomplex scales, index dependence and label selection.  With C01's certificate (data in the
column space => zero residual, clp = the coefficients) the objective is zero at the generating parameters and the
estimated clps are the generating clps divided by the dataset scale.
"""
from __future__ import annotations

import warnings

import numpy as np
import xarray as xr
import z3

from harness import c02_objective as c02
from symx import core
from symx.env import Patcher
from symx.run import model_env
from symx.values import SymArray
from symx.values import SymReal
from symx.values import zreal

BOUNDS = {
    "quick": "8 scheme families with symbolic matrices (index dependent / independent, several megacomplexes with shared labels "
    "and megacomplex scales, dataset scale, full model, 1-3 datasets unlinked / linked), all clps, matrix entries and "
    "parameters symbolic, <= 3x3 points; 3 builtin coherent-artifact configurations (own / IRF width, dispersed IRF) against "
    "C07's closed form",
    "thorough": "plus seeded random schemes from the C02 generator without constraints / relations / weights",
}
OUTSIDE = ("return to the optimum from perturbed start values (convergence of an iterative float optimiser); reproducibility of "
           "the noise seed (compiled RNG); builtin kinetic megacomplexes in this harness (their matrices are C04/C05)")
FLOAT_SELFCHECK = True


def preload():
    c02.preload()
    import glotaran.simulation.simulation  # noqa: F401


def configs(tier, seed):
    A3, G2, G3 = [0.0, 1.0, 2.0], [1.0, 2.0], [1.0, 2.0, 3.0]
    out = []

    def add(name, **kw):
        out.append(dict(name=name, **kw))

    add("single", mcs={"m1": {"labels": ["s1", "s2"]}}, datasets=[{"label": "d1", "mc": ["m1"], "maxis": A3, "gaxis": G2}])
    add("single-scale-indexdep", mcs={"m1": {"labels": ["s1", "s2"], "idx": True}},
        datasets=[{"label": "d1", "mc": ["m1"], "maxis": A3, "gaxis": G3, "scale": "sc1"}])
    add("two-mc-shared-labels-scales", mcs={"m1": {"labels": ["s1", "s2"]}, "m2": {"labels": ["s2", "s3"], "idx": True}},
        datasets=[{"label": "d1", "mc": ["m1", "m2"], "mc_scale": ["ms1", "ms2"], "maxis": A3, "gaxis": G2, "scale": "sc1"}])
    add("par-dependent", mcs={"m1": {"labels": ["s1", "s2"], "pars": ["k1", "k2"]}},
        datasets=[{"label": "d1", "mc": ["m1"], "maxis": A3, "gaxis": G2}])
    # an expression parameter in the model: away from the generating values the fit must evaluate it on the optimiser's vector
    add("par-dependent-expression", mcs={"m1": {"labels": ["s1", "s2"], "pars": ["e1", "k2"]}},
        datasets=[{"label": "d1", "mc": ["m1"], "maxis": A3, "gaxis": G2, "scale": "sc1"}], expr_params={"e1": "$k1 * 2 + $k2"})
    add("full-model", mcs={"m1": {"labels": ["s1", "s2"]}}, gmcs={"g1": {"labels": ["s1", "s2"]}},
        datasets=[{"label": "d1", "mc": ["m1"], "gmc": ["g1"], "maxis": A3, "gaxis": G2}])
    add("full-model-rectangular", mcs={"m1": {"labels": ["s1", "s2"]}}, gmcs={"g1": {"labels": ["s2", "s3", "s1"]}},
        datasets=[{"label": "d1", "mc": ["m1"], "gmc": ["g1"], "maxis": A3, "gaxis": G3}])
    add("full-model-scales", mcs={"m1": {"labels": ["s1", "s2"], "idx": True}}, gmcs={"g1": {"labels": ["s2", "s1"]}},
        datasets=[{"label": "d1", "mc": ["m1"], "gmc": ["g1"], "gmc_scale": ["gs1"], "mc_scale": ["ms1"], "maxis": A3, "gaxis": G2}])
    add("unlinked-two", mcs={"m1": {"labels": ["s1", "s2"]}, "m2": {"labels": ["s2"]}},
        datasets=[{"label": "d1", "mc": ["m1"], "maxis": A3, "gaxis": G2, "scale": "sc1"},
                  {"label": "d2", "mc": ["m1", "m2"], "maxis": A3, "gaxis": G3, "scale": "sc2"}],
        groups={"default": {"link_clp": False}})
    add("linked-two-shared-clps", mcs={"m1": {"labels": ["s1", "s2"]}},
        datasets=[{"label": "d1", "mc": ["m1"], "maxis": A3, "gaxis": [1.0, 2.0]},
                  {"label": "d2", "mc": ["m1"], "maxis": A3, "gaxis": [2.0, 3.0]}],
        groups={"default": {"link_clp": True}}, shared_clp=True)
    add("linked-three-scales-partial-overlap", mcs={"m1": {"labels": ["s1", "s2"]}},
        datasets=[{"label": "d1", "mc": ["m1"], "maxis": A3, "gaxis": [1.0, 2.0, 3.0], "scale": "sc1"},
                  {"label": "d2", "mc": ["m1"], "maxis": A3, "gaxis": [2.0, 3.0, 4.0], "scale": "sc2"},
                  {"label": "d3", "mc": ["m1"], "maxis": A3, "gaxis": [1.0, 3.0, 4.0, 5.0], "scale": "sc3"}],
        groups={"default": {"link_clp": True}}, shared_clp="scaled")
    # builtin spectral model on a scaled (unit-converted) axis: simulate, then evaluate the objective repeatedly on the same inputs
    out.append({"name": "builtin-spectral-scaled-axis", "kind": "builtin-spectral",
                "c07": {"name": "spectral-axis-scaled", "kind": "axis", "axis": "scaled"}})
    # builtin coherent artifact: every parameter declared on the megacomplex (its own width) must enter the matrix that simulation
    # and fit share, with plain, shifted and dispersed IRFs - a parameter the matrix ignores is reproduced at the generating values
    # but can never be recovered from another start (C07's closed form per configuration is the specification)
    for own in (False, True):
        out.append({"name": f"builtin-artifact-dispersed-{'own' if own else 'irf'}width", "kind": "builtin-c07",
                    "c07": {"name": f"artifact-order2-dispersed-{'own' if own else 'irf'}width", "kind": "artifact", "order": 2, "own": own,
                            "indexdep": True, "disp": True, "nt": 1, "ng": 2}})
    out.append({"name": "builtin-artifact-ownwidth", "kind": "builtin-c07",
                "c07": {"name": "artifact-order3-ownwidth", "kind": "artifact", "order": 3, "own": True, "indexdep": False, "nt": 2}})
    if tier == "thorough":
        from harness import pipeline as pl

        for c in c02.random_configs(60, seed + 5):
            c = {k: v for k, v in c.items() if k not in ("constraints", "relations", "penalties", "weights")}
            for ds in c["datasets"]:
                ds.pop("weight", None)
            linked = pl.group_is_linked(c, "default", c["datasets"])
            if linked:
                for ds in c["datasets"]:
                    ds.pop("scale", None)
                c["shared_clp"] = True
            if pl.valid_cfg(c):
                out.append(dict(c, name="sim-" + c["name"]))
    return out


def generating_clp(cfg, ds, src):
    """xr.DataArray (global x clp_label) of generating clps for a dataset; shared between linked datasets by global value."""
    from harness import pipeline as pl

    labels, _, _ = pl.spec_dataset_matrix(cfg, ds, src, {})
    ng = len(ds["gaxis"])
    arr = SymArray((ng, len(labels))) if src.symbolic else np.zeros((ng, len(labels)))
    for g, gv in enumerate(ds["gaxis"]):
        for j, lab in enumerate(labels):
            key = f"C_{'all' if cfg.get('shared_clp') else ds['label']}_{str(gv).replace('.', 'p')}_{lab}"
            v = src.get(key)
            if cfg.get("shared_clp") == "scaled" and ds.get("scale"):
                v = v * src.get(f"P_{ds['scale']}")  # dataset d is generated from scale_d x the common clp
            arr[g, j] = v
    return xr.DataArray(np.asarray(arr), coords=[("global", np.asarray(ds["gaxis"], dtype=float)), ("clp_label", labels)]), labels


def build_simulated_scheme(cfg, src):
    from harness import pipeline as pl
    from glotaran.project import Scheme
    from glotaran.simulation.simulation import simulate

    pl.set_source(src)
    model = pl.build_model(cfg, src)
    params = pl.build_parameters(cfg, src)
    data, clps = {}, {}
    for ds in cfg["datasets"]:
        coords = {"model": np.asarray(ds["maxis"], dtype=float), "global": np.asarray(ds["gaxis"], dtype=float)}
        if ds.get("gmc"):
            data[ds["label"]] = simulate(model, ds["label"], params, coords)
        else:
            clp, labels = generating_clp(cfg, ds, src)
            clps[ds["label"]] = (clp, labels)
            data[ds["label"]] = simulate(model, ds["label"], params, coords, clp=clp)
    scheme = Scheme(model=model, parameters=params, data=data, add_svd=False, maximum_number_function_evaluations=2)
    return scheme, clps


def run_config(cfg, rec):
    import glotaran.simulation.simulation as sim
    from harness import pipeline as pl
    from symx.env import SymNP
    from glotaran.optimization.optimizer import Optimizer

    if cfg.get("kind") == "builtin-c07":
        from harness import c07_basis as c07

        return c07.run_config(cfg["c07"], rec)
    if cfg.get("kind") == "builtin-spectral":
        from harness import c07_basis as c07

        # the builtin spectral megacomplex on terms: documented axis, caller's axis array untouched, repeated evaluation equal (C07's
        # harness); the simulate -> objective round trip on the real model is the float part below
        return c07.run_config(cfg["c07"], rec)
    rec.encodes(sim.simulate, sim.simulate_from_clp, sim.simulate_full_model)
    rec.assume_note("dataset scales non-zero; linked datasets share generating clps at equal global coordinates and carry no scale")
    with Patcher() as p:
        src = pl.Source(None)
        stubs = pl.install(p, src)
        p.set(sim, "np", SymNP(), "numpy facade")
        rec.shims += p.record

        def fn(ctx):
            for s in stubs.values():
                s.calls.clear()
                s.cache.clear()
            with warnings.catch_warnings():
                warnings.simplefilter("ignore")
                scheme, clps = build_simulated_scheme(cfg, src)
                opt = Optimizer(scheme, verbose=False)
                pen = opt.calculate_penalty()
                reported = {}
                for g_ in opt._optimization_groups:
                    reported.update(g_.create_result_data())
                moved = c02.evaluate_moved(ctx, scheme, opt, stubs) if cfg.get("expr_params") or any(m.get("pars") for m in cfg["mcs"].values()) else None
            return scheme, clps, pen, moved, reported

        for ctx, (kind, out) in core.explore(fn, rec.stats, max_paths=50):
            rec.witness_path(ctx)
            wit = lambda mm: {"env": model_env(mm)}  # noqa: E731
            if kind == "exc":
                rec.unexpected(ctx, f"simulate / objective raised {type(out).__name__}: {out}", "simulation:exception", wit)
                continue
            scheme, clps, pen, moved, reported = out
            calls = c02.ordered_calls(stubs)
            if moved is not None:
                # started away from the generating values: the fit's model is the model of the optimiser's vector (matrices)
                labels_m, override, pen_m = moved
                pbs_m, _, _ = pl.spec_problems(cfg, src, override)
                calls_m = c02.ordered_calls(stubs, phase=1)
                okm = len(calls_m) == len(pbs_m)
                why_m = f"{len(calls_m)} linear problems, specification {len(pbs_m)}"
                if okm:
                    for call, pb in zip(calls_m, pbs_m):
                        mapping, why_m = pl.match_columns(ctx, call["matrix"], pb["cols"], pb["labels"])
                        if mapping is None:
                            okm = False
                            break
                if not okm:
                    rec.unexpected(ctx, f"objective at a perturbed parameter vector: {why_m}", "simulation:perturbed-model", wit)
                    continue
                rec.proved["away from the generating parameters every fit matrix is the model matrix at the optimiser's vector"] = \
                    rec.proved.get("away from the generating parameters every fit matrix is the model matrix at the optimiser's vector", 0) + len(calls_m)
            problems, pen_specs, pv = pl.spec_problems(cfg, src)
            items = []
            if len(calls) != len(problems):
                rec.unexpected(ctx, f"{len(calls)} linear problems, specification {len(problems)}", "simulation:problems", wit)
                continue
            for k, (call, pb) in enumerate(zip(calls, problems)):
                mat, dat = call["matrix"], call["data"]
                mapping, why = pl.match_columns(ctx, mat, pb["cols"], pb["labels"])
                if mapping is None:
                    rec.unexpected(ctx, f"problem {k}: {why}", "simulation:fit-matrix", wit)
                    break
                # generating coefficients of this problem, by label
                coef = []
                for lab in mapping:
                    if pb["kind"] == "full":
                        gl, L = lab
                        coef.append(z3.RealVal(1) if gl == L else z3.RealVal(0))
                    else:
                        dsl = pb["ds"][0]
                        ds = [d for d in cfg["datasets"] if d["label"] == dsl][0]
                        gv = pb["index_value"]
                        key = f"C_{'all' if cfg.get('shared_clp') else dsl}_{str(float(gv)).replace('.', 'p')}_{lab}"
                        c = z3.Real(key)
                        if ds.get("scale") and not cfg.get("shared_clp"):
                            c = c / pv[ds["scale"]]
                        # shared_clp == "scaled": generating clp of dataset d is scale_d x common clp, so the common clp is recovered
                        coef.append(c)
                # the estimate reported under a label (pair) is the solver's coefficient of the column with that label (pair)
                for j, lab in enumerate(mapping):
                    for dsl in pb["ds"]:
                        rc = reported[dsl]["clp"]
                        try:
                            if pb["kind"] == "full":
                                got_c = rc.sel(global_clp_label=lab[0], clp_label=lab[1]).item()
                            else:
                                if lab not in list(rc.coords["clp_label"].values):
                                    continue
                                dsd = [d for d in cfg["datasets"] if d["label"] == dsl][0]
                                gvs = [gv_ for gv_ in dsd["gaxis"] if any(row[0] == dsl and dsd["gaxis"][row[2]] == gv_ for row in pb["rows"])]
                                got_c = rc.sel(clp_label=lab, **{"global": gvs[0]}).item()
                            ok_c = pl.eq_term(ctx, got_c, call["clp"][j])
                        except Exception as ex:  # noqa: BLE001
                            ok_c = z3.BoolVal(False)
                        items.append(("the clp reported under a label (full model: under a (global label, label) pair) is the estimate of "
                                      "the column carrying that label", ok_c, "simulation:reported-clp"))
                for r in range(mat.shape[0]):
                    fit = z3.Sum([zreal(mat[r, j]) * coef[j] for j in range(mat.shape[1])]) if mat.shape[1] else z3.RealVal(0)
                    items.append(("simulated data = fit matrix x (generating clp / dataset scale): the data lie in the column space "
                                  "with exactly the generating coefficients", core.cross_eq(zreal(dat[r]), fit), "simulation:model-mismatch"))
            rec.check_all(ctx, items, wit)
            rec.want_sample() and rec.sample({"problems": len(calls), "data0": str(zreal(calls[0]["data"][0]))[:160] if calls else None})
            env = c02.DefaultEnv()
            rec.validate("random-point", dict(env), {"y0": [core.evalf(zreal(x), env) for x in calls[0]["data"].flat]} if calls else {})


# ------------------------------------------------------------------------------------------------ float side
def float_case(cfg, env):
    from harness import pipeline as pl
    from glotaran.optimization.optimizer import Optimizer

    with Patcher() as p:
        src = pl.Source(env, getattr(env, "salt", ""))
        stubs = pl.install(p, src)
        with warnings.catch_warnings():
            warnings.simplefilter("ignore")
            scheme, clps = build_simulated_scheme(cfg, src)
            opt = Optimizer(scheme, verbose=False)
            pen = np.asarray(opt.calculate_penalty(), dtype=float)
            calls = c02.ordered_calls(stubs)
            res = {}
            for g in opt._optimization_groups:
                res.update(g.create_result_data())
    return pen, calls, clps, res, scheme


def concrete(cfg, env):
    if cfg.get("kind") in ("builtin-spectral", "builtin-c07"):
        return {"ok": True}
    pen, calls, _, _, _ = float_case(cfg, c02.DefaultEnv(env))
    return {"y0": [float(x) for x in calls[0]["data"].flat]}


def _builtin_spectral_roundtrip():
    """Real model: spectral shapes on a scaled axis, data simulated from given clps, objective evaluated three times."""
    import xarray as xr

    from glotaran.builtin.megacomplexes.spectral import SpectralMegacomplex
    from glotaran.model import Model
    from glotaran.optimization.optimizer import Optimizer
    from glotaran.parameter import Parameters
    from glotaran.project import Scheme
    from glotaran.simulation import simulate

    SpectralModel = Model.create_class_from_megacomplexes([SpectralMegacomplex])
    model = SpectralModel(**{
        "megacomplex": {"mc1": {"type": "spectral", "shape": {"s1": "sh1", "s2": "sh2"}}},
        "shape": {"sh1": {"type": "gaussian", "amplitude": "a1", "location": "l1", "width": "w1"},
                  "sh2": {"type": "gaussian", "amplitude": "a2", "location": "l2", "width": "w2"}},
        "dataset": {"dataset1": {"megacomplex": ["mc1"], "spectral_axis_scale": 2.5, "spectral_axis_inverted": False}},
    })
    params = Parameters.from_list([["a1", 1.0, {"vary": False}], ["l1", 1250.0], ["w1", 120.0], ["a2", 1.0, {"vary": False}],
                                   ["l2", 1600.0], ["w2", 200.0]])
    spectral = np.linspace(400.0, 760.0, 37)
    time = np.array([0.0, 1.0, 2.0, 3.5])
    spectral_in = spectral.copy()
    clp = xr.DataArray([[1.0, 0.2], [0.7, 0.5], [0.4, 0.8], [0.1, 1.1]], coords=[("time", time), ("clp_label", ["s1", "s2"])])
    data = simulate(model, "dataset1", params, {"spectral": spectral_in, "time": time}, clp=clp)
    if not np.array_equal(spectral_in, spectral) or not np.allclose(data.coords["spectral"].values, spectral):
        return True, (f"simulate() on a scaled spectral axis changed the coordinates: caller's array {spectral_in[:3].tolist()}..., dataset "
                      f"coordinate {data.coords['spectral'].values[:3].tolist()}..., given {spectral[:3].tolist()}...")
    scheme = Scheme(model=model, parameters=params, data={"dataset1": data}, maximum_number_function_evaluations=1)
    opt = Optimizer(scheme, verbose=False)
    pens = [np.asarray(opt.calculate_penalty(), dtype=float).copy() for _ in range(3)]
    worst = max(float(np.max(np.abs(p_))) for p_ in pens)
    if not worst <= 1e-9:
        return True, (f"builtin spectral model on a scaled axis: data simulated without noise are not reproduced at the generating parameters "
                      f"on repeated evaluation (max |penalty| per evaluation {[float(np.max(np.abs(p_))) for p_ in pens]})")
    return False, "ok"


def replay(data):
    cfg = data["cfg"]
    if cfg.get("kind") == "builtin-c07":
        from harness import c07_basis as c07

        with warnings.catch_warnings():
            warnings.simplefilter("ignore")
            return c07.replay({"cfg": cfg["c07"], "env": data.get("env", {})})
    if cfg.get("kind") == "builtin-spectral":
        from harness import c07_basis as c07

        with warnings.catch_warnings():
            warnings.simplefilter("ignore")
            v, d = c07.replay({"cfg": cfg["c07"], "env": {}})
            if not v:
                v, d = _builtin_spectral_roundtrip()
        return v, d
    for env in (c02.salted("r1"), c02.salted("r2")):
        try:
            pen, calls, clps, res, scheme = float_case(cfg, env)
        except Exception as ex:  # noqa: BLE001
            return True, f"config {cfg['name']}: {type(ex).__name__}: {ex}"
        scale_pen = max(1.0, max(abs(float(np.max(np.abs(c["data"])))) for c in calls))
        if np.max(np.abs(pen)) > 1e-8 * scale_pen:
            return True, (f"config {cfg['name']}: data simulated without noise are not reproduced at the generating parameters: "
                          f"max |penalty| = {np.max(np.abs(pen))}")
        for ds in cfg["datasets"]:
            if ds.get("gmc"):
                got = res[ds["label"]]["clp"]
                for gl in got.coords["global_clp_label"].values:
                    for L in got.coords["clp_label"].values:
                        a, b = float(got.sel(global_clp_label=gl, clp_label=L)), (1.0 if gl == L else 0.0)
                        if not abs(a - b) <= 1e-6:
                            return True, (f"config {cfg['name']}: full-model estimate under (global label {gl!r}, label {L!r}) is {a}, the data "
                                          f"were generated with {b}")
                continue
            clp, labels = clps[ds["label"]]
            got = res[ds["label"]]["clp"]
            sc = float(scheme.parameters.get(ds["scale"]).value) if ds.get("scale") else 1.0
            for g, gv in enumerate(ds["gaxis"]):
                for lab in labels:
                    a = float(got.sel(clp_label=lab, **{"global": gv}))
                    b = float(clp.sel(clp_label=lab, **{"global": gv})) / sc
                    if abs(a - b) > 1e-7 * max(1.0, abs(b)):
                        return True, (f"config {cfg['name']}: estimated clp {lab} of {ds['label']} at {gv} is {a}, generating clp / "
                                      f"dataset scale = {b}")
    if cfg.get("expr_params") or any(m.get("pars") for m in cfg["mcs"].values()):
        v, d = c02._replay_moved(cfg, c02.salted("r1"))
        if v:
            return v, "started away from the generating parameters: " + d
    # reproducibility of the noise seed (compiled RNG: sampled, not decided symbolically), including seed 0
    from harness import pipeline as pl
    from glotaran.simulation.simulation import simulate

    src = pl.Source(c02.salted("r1"), "r1")
    pl.set_source(src)
    ds0 = cfg["datasets"][0]
    if not ds0.get("gmc"):
        model, params = pl.build_model(cfg, src), pl.build_parameters(cfg, src)
        coords = {"model": np.asarray(ds0["maxis"], dtype=float), "global": np.asarray(ds0["gaxis"], dtype=float)}
        clp, _ = generating_clp(cfg, ds0, src)
        for seed_ in (0, 7):
            a = simulate(model, ds0["label"], params, coords, clp=clp, noise=True, noise_std_dev=0.1, noise_seed=seed_)
            np.random.random(3)
            b = simulate(model, ds0["label"], params, coords, clp=clp, noise=True, noise_std_dev=0.1, noise_seed=seed_)
            if not np.array_equal(a.data.values, b.data.values):
                return True, f"config {cfg['name']}: simulate(..., noise=True, noise_seed={seed_}) is not reproducible"
    return False, "simulated data reproduced; clps recovered"
