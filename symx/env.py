"""symx environment: module-attribute shims that let real glotaran code run on terms.

Nothing in /repo is edited.  ``Patcher`` assigns module attributes and restores them on exit,
so replays and encoding validation run the untouched float code in the same process.
"""
from __future__ import annotations

import builtins
import contextlib
import importlib

import numpy as _np
import z3

from symx import core
from symx.values import SymArray
from symx.values import SymBool
from symx.values import SymComplex
from symx.values import SymReal
from symx.values import _unwrap
from symx.values import is_sym


def has_sym(x) -> bool:
    if is_sym(x):
        return True
    if isinstance(x, _np.ndarray):
        return x.dtype == object
    if isinstance(x, (list, tuple)):
        return any(has_sym(e) for e in x)
    if type(x).__name__ == "Parameter":
        return is_sym(x.value)
    return False


def _obj(shape, fill):
    a = SymArray(shape)
    _np.ndarray.fill(a, fill)
    return a


class _Linalg:
    def __init__(self, outer):
        self._outer = outer

    def __getattr__(self, name):
        return getattr(_np.linalg, name)

    def svd(self, a, *args, **kw):
        stub = self._outer.stubs.get("svd")
        if stub is None:
            raise core.Unsupported("np.linalg.svd without a contract stub")
        return stub(a, *args, **kw)


class SymNP:
    """numpy facade: allocations become object arrays, float predicates understand SymReal."""

    def __init__(self):
        self.stubs = {}
        self.linalg = _Linalg(self)

    def __getattr__(self, name):
        return getattr(_np, name)

    # -- allocation
    def zeros(self, shape, dtype=None, **k):
        return _obj(shape, 0.0)

    def ones(self, shape, dtype=None, **k):
        return _obj(shape, 1.0)

    def empty(self, shape, dtype=None, **k):
        return _obj(shape, 0.0)

    def full(self, shape, fill_value, dtype=None, **k):
        if isinstance(fill_value, str):
            return _np.full(shape, fill_value, dtype=dtype, **k)
        return _obj(shape, _unwrap(fill_value))

    def zeros_like(self, a, dtype=None, **k):
        return _obj(_np.shape(a), 0.0)

    def ones_like(self, a, dtype=None, **k):
        return _obj(_np.shape(a), 1.0)

    def identity(self, n, dtype=None, **k):
        a = _obj((n, n), 0.0)
        for i in range(n):
            a[i, i] = 1.0
        return a

    def eye(self, n, m=None, k=0, dtype=None, **kw):
        if (m is not None and m != n) or k:
            return _np.eye(n, m, k, dtype=dtype, **kw)
        return self.identity(n)

    def diagflat(self, v, k=0):
        v = list(v)
        n = len(v)
        a = _obj((n, n), 0.0)
        for i, x in enumerate(v):
            a[i, i] = x
        return a

    def diag(self, v, k=0):
        v = _np.asarray(v)
        if v.ndim == 1:
            return self.diagflat(v)
        return _np.diag(v, k)

    def array(self, x, dtype=None, **k):
        if type(x).__name__ == "Parameter":
            x = x.value
        if is_sym(x):
            a = SymArray(())
            _np.ndarray.__setitem__(a, (), x)
            return a
        if has_sym(x):
            if isinstance(x, _np.ndarray):
                return _np.array(x, dtype=object).view(SymArray)
            x = _deep_unwrap(x)
            return _np.array(x, dtype=object).view(SymArray)
        return _np.array(x, dtype=dtype, **k)

    def asarray(self, x, dtype=None, **k):
        if isinstance(x, _np.ndarray) and x.dtype == object:
            return x
        if has_sym(x):
            return self.array(x)
        return _np.asarray(x, dtype=dtype, **k)

    # -- predicates
    def isinf(self, x):
        if is_sym(x):
            return False
        if isinstance(x, _np.ndarray) and x.dtype == object:
            return _np.array(
                [False if is_sym(v) else bool(_np.isinf(v)) for v in x.flat], dtype=bool
            ).reshape(x.shape)
        return _np.isinf(x)

    def isnan(self, x):
        if is_sym(x):
            return False
        if isinstance(x, _np.ndarray) and x.dtype == object:
            return _np.array(
                [False if is_sym(v) else bool(_np.isnan(v)) for v in x.flat], dtype=bool
            ).reshape(x.shape)
        return _np.isnan(x)

    def isfinite(self, x):
        if is_sym(x):
            return True
        if isinstance(x, _np.ndarray) and x.dtype == object:
            return _np.array(
                [True if is_sym(v) else bool(_np.isfinite(v)) for v in x.flat], dtype=bool
            ).reshape(x.shape)
        return _np.isfinite(x)

    def finfo(self, t):
        if isinstance(t, type) and issubclass(t, float):
            t = float
        return _np.finfo(t)

    def allclose(self, a, b, rtol=1e-05, atol=1e-08, **k):
        a, b = _deep_unwrap(a), _deep_unwrap(b)
        if has_sym(a) or has_sym(b):
            # exact-arithmetic reading: |a-b| <= atol + rtol*|b| element-wise (forks)
            aa, bb = _np.broadcast_arrays(_np.asarray(a, dtype=object), _np.asarray(b, dtype=object))
            ok = True
            for x, y in zip(aa.flat, bb.flat):
                if not (abs(x - y) <= atol + rtol * abs(y)):
                    ok = False
                    break
            return ok
        return _np.allclose(a, b, rtol=rtol, atol=atol, **k)

    def isclose(self, a, b, rtol=1e-05, atol=1e-08, **k):
        a, b = _deep_unwrap(a), _deep_unwrap(b)
        if has_sym(a) or has_sym(b):
            return abs(a - b) <= atol + rtol * abs(b)
        return _np.isclose(a, b, rtol=rtol, atol=atol, **k)

    def where(self, cond, *args):
        if not args:
            return _np.where(cond)
        x, y = args
        if (isinstance(cond, _np.ndarray) and cond.dtype == object) or has_sym(x) or has_sym(y):
            c, xx, yy = _np.broadcast_arrays(
                _np.asarray(cond, dtype=object),
                _np.asarray(x, dtype=object),
                _np.asarray(y, dtype=object),
            )
            out = SymArray(c.shape)
            for i in _np.ndindex(*c.shape):
                _np.ndarray.__setitem__(out, i, xx[i] if c[i] else yy[i])
            return out
        return _np.where(cond, x, y)

    def sum(self, a, *args, **kw):
        return _np.sum(a, *args, **kw)

    def dot(self, a, b):
        return _np.dot(a, b)

    def _elementwise(self, x, meth, fallback):
        if isinstance(x, (SymReal, SymComplex)):
            return getattr(x, meth)()
        if type(x).__name__ == "DataArray":
            return fallback(x)
        if isinstance(x, _np.ndarray) and x.dtype == object:
            out = SymArray(x.shape)
            for i in _np.ndindex(*x.shape):
                v = x[i]
                _np.ndarray.__setitem__(out, i, getattr(v, meth)() if hasattr(v, meth) else fallback(v))
            return out if x.ndim else out[()]
        return fallback(x)

    def exp(self, x):
        return self._elementwise(x, "exp", _np.exp)

    def log(self, x):
        return self._elementwise(x, "log", _np.log)

    def log1p(self, x):
        if isinstance(x, (SymReal, SymComplex)) or (isinstance(x, _np.ndarray) and x.dtype == object):
            return self.log(x + 1)  # exact arithmetic: log1p(x) = log(1 + x)
        return _np.log1p(x)

    def expm1(self, x):
        if isinstance(x, (SymReal, SymComplex)) or (isinstance(x, _np.ndarray) and x.dtype == object):
            return self.exp(x) - 1
        return _np.expm1(x)

    def sqrt(self, x):
        return self._elementwise(x, "sqrt", _np.sqrt)

    def sin(self, x):
        return self._elementwise(x, "sin", _np.sin)

    def cos(self, x):
        return self._elementwise(x, "cos", _np.cos)

    def abs(self, x):
        if isinstance(x, SymReal):
            return abs(x)
        return _np.abs(x)

    def square(self, x):
        return x * x


def _deep_unwrap(x):
    if isinstance(x, (list, tuple)):
        return [_deep_unwrap(e) for e in x]
    return _unwrap(x)


def sym_isinstance(o, t):
    if isinstance(o, SymReal):
        ts = t if isinstance(t, tuple) else (t,)
        if any(tt is float or tt is _np.floating for tt in ts):
            return True
    return builtins.isinstance(o, t)


class sym_float(float):
    """Module-level shadow of ``float``: passes SymReal (or a Parameter holding one) through."""

    def __new__(cls, x=0.0):
        if isinstance(x, SymReal):
            return x
        if type(x).__name__ == "Parameter" and isinstance(x.value, SymReal):
            return x.value
        if isinstance(x, _np.ndarray) and x.dtype == object and x.ndim == 0:
            return sym_float(x.item())
        return builtins.float(x)


class Patcher(contextlib.AbstractContextManager):
    """Set module attributes; restore on exit. Records what it did (for the evidence file)."""

    def __init__(self):
        self._undo = []
        self.record = []

    def set(self, module, name, value, note=None):
        if isinstance(module, str):
            module = importlib.import_module(module)
        missing = object()
        old = module.__dict__.get(name, missing) if hasattr(module, "__dict__") else getattr(module, name, missing)
        self._undo.append((module, name, old, missing))
        setattr(module, name, value)
        mname = getattr(module, "__name__", repr(module))
        self.record.append(f"{mname}.{name} -> {note or getattr(value, '__name__', type(value).__name__)}")

    def setitem(self, mapping, key, value, note):
        missing = object()
        old = mapping.get(key, missing)
        self._undo.append((mapping, key, old, missing))
        mapping[key] = value
        self.record.append(note)

    def __exit__(self, *a):
        self.restore()
        return False

    def restore(self):
        while self._undo:
            target, name, old, missing = self._undo.pop()
            if isinstance(target, dict):
                if old is missing:
                    target.pop(name, None)
                else:
                    target[name] = old
            elif old is missing:
                try:
                    delattr(target, name)
                except AttributeError:
                    pass
            else:
                setattr(target, name, old)


NP_MODULES = [
    "glotaran.optimization.estimation_provider",
    "glotaran.optimization.matrix_provider",
    "glotaran.optimization.data_provider",
    "glotaran.optimization.optimizer",
    "glotaran.optimization.optimization_group",
    "glotaran.parameter.parameter",
    "glotaran.parameter.parameters",
    "glotaran.parameter.parameter_history",
]


def install_numeric_shims(p: Patcher, facade: SymNP | None = None, modules=NP_MODULES):
    """numpy facade + builtins shadows + attrs validator widening (DESIGN 2.2 items 1-2)."""
    import attrs

    from glotaran.parameter import Parameter

    facade = facade or SymNP()
    for m in modules:
        mod = importlib.import_module(m)
        if "np" in mod.__dict__:
            p.set(mod, "np", facade, "numpy facade")
    p.set("glotaran.parameter.parameters", "isinstance", sym_isinstance, "isinstance accepting SymReal as float")
    p.set("glotaran.optimization.optimizer", "float", sym_float, "float() passing SymReal through")
    p.set("glotaran.optimization.matrix_provider", "float", sym_float, "float() passing SymReal through")
    for attr_name in ("value", "minimum", "maximum"):
        vals = getattr(attrs.fields(Parameter), attr_name).validator
        for vv in getattr(vals, "_validators", (vals,)):
            if hasattr(vv, "type"):
                old = vv.type
                oldt = old if isinstance(old, tuple) else (old,)
                object.__setattr__(vv, "type", (*oldt, SymReal))
                p._undo.append((_ValidatorSlot(vv), "type", old, object()))
                p.record.append(f"attrs validator of Parameter.{attr_name} accepts SymReal")
    return facade


class AdvSet:
    """Stand-in for the builtin ``set`` inside the modules under analysis: its *iteration order* is arbitrary (a finite symbolic
    choice over the permutations of its elements, at most 4 elements), as the order of a real set of strings is across processes
    with different hash seeds.  Code whose result depends on that order forks into the orders."""

    def __init__(self, iterable=()):
        self._items = []
        for x in iterable:
            if x not in self._items:
                self._items.append(x)

    def __iter__(self):
        import itertools

        items = list(self._items)
        ctx = core.Ctx.cur
        if ctx is not None and 1 < len(items) <= 4:
            perms = list(itertools.permutations(range(len(items))))
            k = ctx.choose(len(perms), "set_iteration_order")
            items = [items[i] for i in perms[k]]
        return iter(items)

    def __len__(self):
        return len(self._items)

    def __contains__(self, x):
        return x in self._items

    def __bool__(self):
        return bool(self._items)

    def __eq__(self, other):
        return isinstance(other, (AdvSet, set, frozenset)) and len(other) == len(self._items) and all(x in other for x in self._items)

    __hash__ = None

    def add(self, x):
        if x not in self._items:
            self._items.append(x)

    def discard(self, x):
        if x in self._items:
            self._items.remove(x)

    def update(self, *others):
        for o in others:
            for x in (o._items if isinstance(o, AdvSet) else o):
                self.add(x)

    def difference(self, *others):
        drop = [x for o in others for x in (o._items if isinstance(o, AdvSet) else o)]
        return AdvSet(x for x in self._items if x not in drop)

    def union(self, *others):
        r = AdvSet(self._items)
        r.update(*others)
        return r

    def intersection(self, *others):
        return AdvSet(x for x in self._items if all(x in (o._items if isinstance(o, AdvSet) else o) for o in others))

    def issubset(self, other):
        return all(x in other for x in self._items)

    def __sub__(self, other):
        return self.difference(other)

    def __or__(self, other):
        return self.union(other)

    def __and__(self, other):
        return self.intersection(other)

    def __repr__(self):
        return f"AdvSet({self._items!r})"


def install_set_shims(p: Patcher, modules):
    """Shadow the builtin ``set`` in the given modules by AdvSet (only effective where the module calls ``set(...)``)."""
    for m in modules:
        mod = importlib.import_module(m)
        if "set" not in mod.__dict__:
            p.set(mod, "set", AdvSet, "builtin set -> set with arbitrary iteration order (hash-seed independence)")


class _ValidatorSlot:
    def __init__(self, v):
        self.v = v

    def __setattr__(self, k, val):
        if k == "v":
            object.__setattr__(self, k, val)
        else:
            object.__setattr__(self.v, k, val)


__all__ = ["SymNP", "Patcher", "install_numeric_shims", "install_set_shims", "AdvSet", "sym_float", "sym_isinstance", "has_sym", "SymBool", "z3"]
