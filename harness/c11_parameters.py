"""C11 - parameter transformations, bounds and fixed parameters are respected."""
from __future__ import annotations

import itertools
import math
import warnings

import numpy as np
import z3

from harness import c02_objective as c02
from harness import c13_statistics as c13
from harness import optim
from harness import pipeline as pl
from symx import core
from symx.env import Patcher
from symx.env import install_numeric_shims
from symx.run import model_env
from symx.values import SymArray
from symx.values import SymReal
from symx.values import sym
from symx.values import zreal

INF = float("inf")
BOUNDS = {
    "quick": "round trip: one parameter, value/min/max symbolic or infinite, both flags; vectors: 4 parameters with every "
    "mix of free / fixed / expression / non-negative / bounded flags in 7 arrangements, each followed by in-place flag changes (fix / release / assign expression); optimiser: 3 schemes x 2-3 iterates "
    "anywhere inside the bounds handed to least_squares",
    "thorough": "all 4-parameter flag arrangements, 4 iterates",
}
OUTSIDE = "what real scipy does with the bounds (its contract, assumed); floating-point rounding of exp(log(x))"

FLOAT_SELFCHECK = True


def preload():
    c02.preload()


KINDS = ["free", "fixed", "expr", "nonneg", "bounded", "nonneg-bounded", "lower-bounded", "fixed-nonneg", "fixed-bounded"]


def configs(tier, seed):
    out = []
    for nn in (False, True):
        for lo in ("inf", "sym", "zero") if nn else ("inf", "sym"):
            for hi in ("inf", "sym"):
                out.append({"name": f"roundtrip-{'nn' if nn else 'plain'}-{lo}-{hi}", "kind": "roundtrip", "nn": nn, "lo": lo, "hi": hi})
    arrangements = [
        ["free", "fixed", "expr", "nonneg"],
        ["expr", "nonneg", "fixed", "free"],
        ["nonneg-bounded", "bounded", "expr", "fixed"],
        ["fixed", "lower-bounded", "nonneg", "expr"],
        ["bounded", "bounded", "nonneg-bounded", "free"],
        ["expr", "expr", "free", "nonneg"],
        ["fixed-nonneg", "free", "fixed-bounded", "nonneg"],
    ]
    if tier == "thorough":
        arrangements += [list(a) for a in itertools.islice(itertools.product(KINDS, repeat=4), 0, None, 37)]
    for i, arr in enumerate(arrangements):
        if all(k == "expr" for k in arr):
            continue
        out.append({"name": f"vector-{i}-" + "-".join(arr), "kind": "vector", "arr": arr, "nested": i % 2 == 1})
    A4, G2 = [0.0, 1.0, 2.0, 3.5], [1.0, 2.0]
    base = {"mcs": {"m1": {"labels": ["s1", "s2"], "pars": ["k1", "k2"]}},
            "datasets": [{"label": "d1", "mc": ["m1"], "maxis": A4, "gaxis": G2, "scale": "sc1"}]}
    for j, (name, opts, exprs) in enumerate([
        ("opt-nonneg-bounded-fixed", {"k1": {"non-negative": True, "min": "sym", "max": "sym"}, "k2": {"min": "sym", "max": "sym"}, "sc1": {"vary": False}}, {}),
        ("opt-fixed-nonneg", {"k1": {}, "k2": {"vary": False}, "sc1": {"vary": False, "non-negative": True}}, {}),
        ("opt-expression-lowerbound", {"k1": {"min": "sym"}, "k2": {"non-negative": True}, "sc1": {"max": "sym"}}, {"e1": "$k1 * 2 + $sc1"}),
        ("opt-fixed-first-nonneg-zero-min", {"k1": {"vary": False}, "k2": {"non-negative": True, "min": 0.0, "max": "sym"}, "sc1": {}}, {"e1": "$k2 + 1"}),
        # a chain of expression parameters declared before what they reference
        ("opt-expression-chain-topdown", {"k1": {}, "k2": {"vary": False}, "sc1": {}}, {"ea": "$eb * 2", "eb": "$ec + $k2", "ec": "$k1 * 3"}),
    ]):
        out.append(dict(base, name=name, kind="optimize", param_options=opts, expr_params=exprs, K=2 if tier == "quick" else 4,
                        expr_first=name.endswith("topdown")))
    return out


def _abs(e):
    return z3.If(e >= 0, e, -e)


def inverse_axioms(ctx):
    """x <= log(b) <=> exp(x) <= b for every occurring exp argument x and log argument b > 0; monotonicity."""
    exps = ctx.uf_apps.get("exp", [])
    logs = ctx.uf_apps.get("log", [])
    E, L = core.uf_decl("exp"), core.uf_decl("log")
    out = []
    for x in exps:
        for b in logs:
            out.append(z3.Implies(b > 0, z3.And((x <= L(b)) == (E(x) <= b), (x >= L(b)) == (E(x) >= b))))
    for a, b in itertools.combinations(logs, 2):
        out.append(z3.Implies(z3.And(a > 0, b > 0), z3.And((a <= b) == (L(a) <= L(b)), (a == b) == (L(a) == L(b)))))
    for a, b in itertools.combinations(exps, 2):
        out.append(z3.And((a <= b) == (E(a) <= E(b))))
    # tangent-line bounds (valid for the real functions): ln a <= a - 1, exp x >= 1 + x
    for a in logs:
        out.append(z3.Implies(a > 0, L(a) <= a - 1))
    for x in exps:
        out.append(E(x) >= 1 + x)
    return out


def run_config(cfg, rec):
    import glotaran.parameter.parameter as pp
    import glotaran.parameter.parameters as pm

    rec.encodes(pp.Parameter.get_value_and_bounds_for_optimization, pp.Parameter.set_value_from_optimization, pp._log_value,
                pm.Parameters.get_label_value_and_bounds_arrays, pm.Parameters.set_from_label_and_value_arrays,
                pm.Parameters.set_from_history)
    rec.assume_note("non-negative parameters have value > 0 and minimum in {-inf, 0} or > 0; minimum <= value <= maximum; "
                    "exp/log as uninterpreted functions with inverse and monotonicity axioms instantiated on occurring terms")
    if cfg["kind"] == "optimize":
        return _run_optimize(cfg, rec)
    with Patcher() as p:
        install_numeric_shims(p)
        rec.shims += p.record
        if cfg["kind"] == "roundtrip":
            _run_roundtrip(cfg, rec)
        else:
            _run_vector(cfg, rec)


def _bound(kind, name, ctx):
    if kind == "inf":
        return None
    if kind == "zero":
        return 0.0
    return sym(name)


def _run_roundtrip(cfg, rec):
    from glotaran.parameter import Parameter

    def fn(ctx):
        v = sym("v")
        lo, hi = _bound(cfg["lo"], "lo", ctx), _bound(cfg["hi"], "hi", ctx)
        p = Parameter(label="p", value=1.0, non_negative=cfg["nn"])
        p.value = v
        if lo is not None:
            object.__setattr__(p, "minimum", lo)
            ctx.assume(v >= lo)
        if hi is not None:
            object.__setattr__(p, "maximum", hi)
            ctx.assume(v <= hi)
        if cfg["nn"]:
            ctx.assume(v.e > 0)
            if isinstance(lo, SymReal):
                ctx.assume(lo.e > 0)
        x, lb, ub = p.get_value_and_bounds_for_optimization()
        p.set_value_from_optimization(x)
        back = p.value
        # an arbitrary iterate inside the transformed bounds
        y = sym("y")
        for b, ge in ((lb, True), (ub, False)):
            if isinstance(b, (float, np.floating)) and abs(float(b)) == INF:
                continue
            ctx.assume((y >= b) if ge else (y <= b))
        p.set_value_from_optimization(y)
        return v, lo, hi, x, lb, ub, back, p.value

    for ctx, (kind, out) in core.explore(fn, rec.stats, max_paths=100):
        rec.witness_path(ctx)
        wit = lambda mm: {"env": model_env(mm)}  # noqa: E731
        if kind == "exc":
            rec.unexpected(ctx, f"round trip raised {type(out).__name__}: {out}", "roundtrip:exception", wit)
            continue
        v, lo, hi, x, lb, ub, back, stepped = out
        ax = inverse_axioms(ctx)
        items = []
        vb = zreal(back)
        if cfg["nn"]:
            items.append(("round trip through the optimiser's vector is the identity (non-negative: to the documented 1e-10 guard)",
                          _abs(vb - v.e) <= z3.Q(1, 10**9) * _abs(v.e), "roundtrip:not-identity"))
        else:
            items.append(("round trip through the optimiser's vector is the identity", vb == v.e, "roundtrip:not-identity"))

        def cmp_le(a, b):
            if isinstance(a, (float, np.floating)) and float(a) == -INF or isinstance(b, (float, np.floating)) and float(b) == INF:
                return z3.BoolVal(True)
            if isinstance(a, (float, np.floating)) and float(a) == INF or isinstance(b, (float, np.floating)) and float(b) == -INF:
                return z3.BoolVal(False)
            return zreal(a) <= zreal(b)

        slack = zreal(1e-9)
        xs = SymReal(x.e - slack) if isinstance(x, SymReal) else x
        items.append(("start value lies inside the bounds handed to the optimiser (to the documented 1e-10 guard at value 1)",
                      z3.And(cmp_le(lb, SymReal(x.e + slack) if isinstance(x, SymReal) else x), cmp_le(xs, ub)), "roundtrip:x0-outside-bounds"))
        sv = zreal(stepped)
        conds = []
        if lo is not None:
            conds.append(sv >= zreal(lo))
        if hi is not None:
            conds.append(sv <= zreal(hi) + (z3.Q(1, 10**9) * _abs(zreal(hi)) if cfg["nn"] else 0))
        if cfg["nn"]:
            conds.append(sv > 0)
        items.append(("any iterate inside the optimiser's bounds maps back inside [minimum, maximum] (positive if non-negative)",
                      z3.And(conds) if conds else z3.BoolVal(True), "roundtrip:iterate-leaves-bounds"))
        for n_, g, fp in items:
            rec.check(ctx, n_, g, fp, wit, extra=ax)
        rec.want_sample() and rec.sample({"pc": [str(c) for c in ctx.pc][:4], "x": str(zreal(x)) if isinstance(x, SymReal) else x, "lb": str(lb), "ub": str(ub)})
        rec.validate("roundtrip", {"v": 1.7, "lo": 0.4, "hi": 3.0}, {"x": math.log(1.7) if cfg["nn"] else 1.7})


# ------------------------------------------------------------------------------------------------ vectors
def vector_params(cfg, value_of):
    from glotaran.parameter import Parameter
    from glotaran.parameter import Parameters

    labels = ["rates.k1", "rates.k2", "b", "amp.3"] if cfg["nested"] else ["a", "b", "c", "d"]
    ps, spec = {}, []
    first_plain = next(i for i, k in enumerate(cfg["arr"]) if k != "expr")
    for i, kind in enumerate(cfg["arr"]):
        lab = labels[i]
        kw = {}
        if kind == "expr":
            kw["expression"] = f"${labels[first_plain]} * 2 + 1"
        if kind.startswith("fixed"):
            kw["vary"] = False
        if kind in ("nonneg", "nonneg-bounded", "fixed-nonneg"):
            kw["non_negative"] = True
        p = Parameter(label=lab, value=1.0, **kw)
        if kind != "expr":
            p.value = value_of(f"v{i}")
        if kind in ("bounded", "nonneg-bounded", "fixed-bounded"):
            object.__setattr__(p, "minimum", value_of(f"lo{i}"))
            object.__setattr__(p, "maximum", value_of(f"hi{i}"))
        if kind == "lower-bounded":
            object.__setattr__(p, "minimum", value_of(f"lo{i}"))
        ps[lab] = p
        spec.append((lab, kind))
    return Parameters(ps), spec, labels


def flag_changes(params, spec):
    """Life cycle after the vectors were queried once: flags of the *existing* Parameter objects are changed in place (a free
    parameter is fixed, a fixed one is released, a free one is given an expression).  Returns the expected free labels after
    each change and what the real code selects then."""
    stages = []
    kinds = {lab: k for lab, k in spec}

    def is_free(lab):
        return not kinds[lab].startswith("fixed") and kinds[lab] != "expr"

    free_labs = [lab for lab, _ in spec if is_free(lab)]
    fixed_labs = [lab for lab, k in spec if k.startswith("fixed")]
    cur = list(free_labs)
    if len(free_labs) >= 2:
        params.get(free_labs[0]).vary = False
        cur = [l_ for l_ in cur if l_ != free_labs[0]]
        stages.append((f"{free_labs[0]}.vary = False", list(cur), list(params.get_label_value_and_bounds_arrays(exclude_non_vary=True)[0])))
    if fixed_labs:
        params.get(fixed_labs[0]).vary = True
        cur = [lab for lab, _ in spec if lab in cur or lab == fixed_labs[0]]
        stages.append((f"{fixed_labs[0]}.vary = True", list(cur), list(params.get_label_value_and_bounds_arrays(exclude_non_vary=True)[0])))
    if len(free_labs) >= 3:
        params.get(free_labs[-1]).expression = f"${free_labs[1]} * 2 + 1"
        cur = [l_ for l_ in cur if l_ != free_labs[-1]]
        stages.append((f"{free_labs[-1]}.expression assigned", list(cur), list(params.get_label_value_and_bounds_arrays(exclude_non_vary=True)[0])))
    alll = list(params.get_label_value_and_bounds_arrays()[0])
    return stages, alll


def _run_vector(cfg, rec):
    def fn(ctx):
        params, spec, labels = vector_params(cfg, sym)
        for i, (lab, kind) in enumerate(spec):
            p = params.get(lab)
            if kind == "expr":
                continue
            if p.non_negative:
                ctx.assume(p.value.e > 0)
            if isinstance(p.minimum, SymReal):
                ctx.assume(p.value >= p.minimum)
                if p.non_negative:
                    ctx.assume(p.minimum.e > 0)
            if isinstance(p.maximum, SymReal):
                ctx.assume(p.value <= p.maximum)
        before = {lab: params.get(lab).value for lab, _ in spec}
        free, x0, lb, ub = params.get_label_value_and_bounds_arrays(exclude_non_vary=True)
        alll, allv, _, _ = params.get_label_value_and_bounds_arrays()
        # an arbitrary iterate in bounds, applied like the optimiser does
        y = SymArray((len(free),))
        for k in range(len(free)):
            y[k] = sym(f"y{k}")
            for b, ge in ((lb[k], True), (ub[k], False)):
                if isinstance(b, (float, np.floating)) and abs(float(b)) == INF:
                    continue
                ctx.assume((y[k] >= b) if ge else (y[k] <= b))
        params.set_from_label_and_value_arrays(free, y)
        after = {lab: params.get(lab) for lab, _ in spec}
        after = {lab: (lambda p_: type("Snap", (), {"value": p_.value, "expression": p_.expression, "vary": p_.vary, "non_negative": p_.non_negative,
                                                    "minimum": p_.minimum, "maximum": p_.maximum}))(p_) for lab, p_ in after.items()}
        changes = flag_changes(params, spec)
        return params, spec, before, free, x0, lb, ub, alll, y, after, changes

    for ctx, (kind, out) in core.explore(fn, rec.stats, max_paths=300):
        rec.witness_path(ctx)
        wit = lambda mm: {"env": model_env(mm)}  # noqa: E731
        if kind == "exc":
            rec.unexpected(ctx, f"vector conversion raised {type(out).__name__}: {out}", "vector:exception", wit)
            continue
        params, spec, before, free, x0, lb, ub, alll, y, after, changes = out
        ax = inverse_axioms(ctx)
        want_free = [lab for lab, k in spec if not k.startswith("fixed") and k != "expr"]
        items = [
            ("the optimiser's vector holds exactly the parameters with vary and without expression, in declaration order",
             z3.BoolVal(list(free) == want_free and len(x0) == len(lb) == len(ub) == len(free)), "vector:free-selection"),
            ("unfiltered arrays list every parameter in declaration order", z3.BoolVal(list(alll) == [lab for lab, _ in spec]),
             "vector:all-labels"),
            ("after flags of existing parameters were changed in place the optimiser's vector follows the current flags",
             z3.BoolVal(all(want_ == got_ for _, want_, got_ in changes[0]) and changes[1] == [lab for lab, _ in spec]),
             "vector:free-selection-after-flag-change"),
        ]
        for lab, k in spec:
            p = after[lab]
            if k.startswith("fixed"):
                items.append(("fixed parameters keep their value", zreal(p.value) == zreal(before[lab]), "vector:fixed-changed"))
            elif k == "expr":
                src_lab = [l_ for l_, kk in spec if kk != "expr"][0]
                items.append(("expression parameters keep their definition and equal it on the new values",
                              z3.And(z3.BoolVal(p.expression is not None and p.vary is False),
                                     zreal(p.value) == zreal(after[src_lab].value) * 2 + 1), "vector:expression"))
            else:
                j = want_free.index(lab)
                conds = [zreal(p.value) == (ctx.uf("exp", zreal(y[j])) if p.non_negative else zreal(y[j]))]
                if isinstance(p.minimum, SymReal):
                    conds.append(zreal(p.value) >= p.minimum.e)
                if isinstance(p.maximum, SymReal):
                    conds.append(zreal(p.value) <= p.maximum.e + (z3.Q(1, 10**9) * _abs(p.maximum.e) if p.non_negative else 0))
                if p.non_negative:
                    conds.append(zreal(p.value) > 0)
                items.append(("free parameter k receives the optimiser's k-th entry and stays within [minimum, maximum] (positive if non-negative)",
                              z3.And(conds), "vector:free-value"))
        ax = inverse_axioms(ctx)
        for n_, g, fp in items:
            rec.check(ctx, n_, g, fp, wit, extra=ax)
        rec.want_sample() and rec.sample({"flags": cfg["arr"], "free": list(free), "pc": [str(c) for c in ctx.pc][:3]})
        rec.validate("vector", {}, {"free": want_free})


# ------------------------------------------------------------------------------------------------ through the optimiser
def _run_optimize(cfg, rec):
    import glotaran.optimization.optimizer as om
    from glotaran.parameter import Parameters

    rec.encodes(om.Optimizer.optimize, om.Optimizer.objective_function, om.Optimizer.create_result)
    free_labels = optim.free_parameter_spec(cfg)
    opts = cfg.get("param_options", {})

    def after(ctx, scheme, opt, result):
        recs = []
        hist = result.parameter_history
        for r in range(hist.number_of_records):
            ps = scheme.parameters.copy()
            ps.set_from_history(hist, r)
            recs.append({p.label: p.value for p in ps.all()})
        # the recorded values themselves (what the model was evaluated with), when no logarithmic transformation is involved
        if not any(o.get("non-negative") for o in opts.values()):
            for r in range(hist.number_of_records):
                recs.append(dict(zip(hist.parameter_labels[1:], list(hist.get_parameters(r))[1:])))
        recs += ctx.log.get("seen", [])
        return recs

    def seen_hook(mc, dm):
        # the parameter values at the moment the model is evaluated (every matrix calculation of every objective evaluation)
        cur = core.Ctx.cur
        opt_ = cur.log.get("opt") if cur is not None and isinstance(cur.log, dict) else None
        if opt_ is not None and cfg.get("expr_params"):
            snap = {p_.label: p_.value for p_ in opt_._parameters.all()}
            seen = cur.log.setdefault("seen", [])
            if len(seen) < 8:
                seen.append(snap)

    pl.FAULT_HOOK["hook"] = seen_hook

    for ctx, src, stubs, kind, out in c13.symbolic_optimize(cfg, rec, K=cfg.get("K", 2), after=after, max_paths=600, well_conditioned=True):
        rec.witness_path(ctx)
        wit = lambda mm: {"env": model_env(mm)}  # noqa: E731
        if kind == "exc":
            rec.unexpected(ctx, f"optimize raised {type(out).__name__}: {out}", "optimize:exception", wit)
            continue
        scheme, opt, ls, svd, res, recs = out
        ax = inverse_axioms(ctx)
        items = [("least_squares receives exactly the free parameters (vary, no expression) in declaration order",
                  z3.BoolVal(list(res.free_parameter_labels) == free_labels and len(ls.x0) == len(free_labels)), "optimize:free-selection")]
        lb, ub = ls.bounds
        for k, lab in enumerate(free_labels):
            o = opts.get(lab, {})
            p0 = scheme.parameters.get(lab)
            x0k = zreal(ls.x0[k])
            want0 = ctx.uf("log", z3.If(p0.value.e == 1, p0.value.e + zreal(1e-10), p0.value.e)) if o.get("non-negative") else p0.value.e
            conds = [x0k == want0]
            for b, ge in ((lb[k], True), (ub[k], False)):
                if isinstance(b, (float, np.floating)) and abs(float(b)) == INF:
                    continue
                conds.append((x0k + zreal(1e-9) >= zreal(b)) if ge else (x0k - zreal(1e-9) <= zreal(b)))
            items.append(("x0[k] is free parameter k (logarithm if non-negative) and lies inside the bounds handed over",
                          z3.And(conds), "optimize:x0"))
        sets = [("optimized_parameters", {p.label: p.value for p in res.optimized_parameters.all()})]
        sets += [(f"history record {r}", rr) for r, rr in enumerate(recs)]
        for name, vals in sets:
            exprs_ = cfg.get("expr_params", {})
            if exprs_ and all(lab in vals for lab in exprs_):
                denoted_ = pl.with_expression_values(cfg, {lab: zreal(v) for lab, v in vals.items() if lab not in exprs_})
                for lab in exprs_:
                    v_ = vals[lab]
                    items.append(("in every history record and in the result an expression parameter has the value of its definition on "
                                  "that record's values (the model is evaluated with mutually consistent parameters)",
                                  core.cross_eq(zreal(v_), denoted_[lab]) if isinstance(v_, SymReal) or v_ == v_ else z3.BoolVal(False),
                                  "optimize:expression-value"))
            for lab, val in vals.items():
                o = opts.get(lab, {})
                p0 = scheme.parameters.get(lab)
                if lab in cfg.get("expr_params", {}):
                    continue
                if not o.get("vary", True):
                    same = (_abs(zreal(val) - zreal(p0.value)) <= z3.Q(1, 10**9) * _abs(zreal(p0.value))) if o.get("non-negative") \
                        else zreal(val) == zreal(p0.value)
                    items.append(("fixed parameters keep their value in every history record and in the result "
                                  "(non-negative ones to the documented 1e-10 guard)", same, "optimize:fixed-changed"))
                    continue
                conds = []
                if "min" in o:
                    conds.append(zreal(val) >= zreal(p0.minimum))
                if "max" in o:
                    conds.append(zreal(val) <= zreal(p0.maximum) * (1 + (z3.Q(1, 10**9) if o.get("non-negative") else 0)))
                if o.get("non-negative"):
                    conds.append(zreal(val) > 0)
                if conds:
                    kind_ = "result" if name == "optimized_parameters" else "history"
                    items.append((f"free parameters stay within [minimum, maximum] (non-negative ones positive) in the {kind_}",
                                  z3.And(conds), f"optimize:bounds-violated-{kind_}"))
        cov_ = np.asarray(res.covariance_matrix, dtype=object)
        jac_ = np.asarray(res.jacobian, dtype=object)
        n_free_ = len(free_labels)
        items.append(("free-parameter labels, Jacobian columns and covariance rows / columns have the same length and order (one per "
                      "free parameter, also when the optimiser reports active bounds)",
                      z3.BoolVal(cov_.shape == (n_free_, n_free_) and jac_.ndim == 2 and jac_.shape[1] == n_free_
                                 and list(res.free_parameter_labels) == free_labels), "optimize:ordering-shapes"))
        for lab in free_labels:
            se_ = res.optimized_parameters.get(lab).standard_error
            items.append(("every free parameter carries its own standard error", z3.BoolVal(isinstance(se_, SymReal) or se_ == se_),
                          "optimize:standard-error-missing"))
        for lab, expr in cfg.get("expr_params", {}).items():
            p = res.optimized_parameters.get(lab)
            items.append(("expression parameters keep their definition and are never handed to the optimiser",
                          z3.BoolVal(p.expression == expr and lab not in res.free_parameter_labels), "optimize:expression-lost"))
        for n_, g, fp in items:
            rec.check(ctx, n_, g, fp, wit, extra=ax)
        rec.want_sample() and rec.sample({"free": free_labels, "records": len(recs), "pc": [str(c)[:80] for c in ctx.pc][:3]})
        rec.validate("optimize", dict(c02.DefaultEnv()), {"free": free_labels})
    pl.FAULT_HOOK.pop("hook", None)


# ------------------------------------------------------------------------------------------------ float side
def concrete(cfg, env):
    from glotaran.parameter import Parameter

    if cfg["kind"] == "roundtrip":
        p = Parameter(label="p", value=env["v"], non_negative=cfg["nn"])
        return {"x": float(p.get_value_and_bounds_for_optimization()[0])}
    if cfg["kind"] == "vector":
        vals = iter(range(100))
        params, spec, _ = vector_params(cfg, lambda n: {"v": 1.5, "l": 0.5, "h": 3.0}[n[0]] + 0.01 * int(n[-1]))
        return {"free": list(params.get_label_value_and_bounds_arrays(exclude_non_vary=True)[0])}
    res, ls = c13.float_optimize(cfg, c02.DefaultEnv(env), K=cfg.get("K", 2))
    return {"free": list(res.free_parameter_labels)}


def replay(data):
    cfg, env = data["cfg"], data.get("env", {})
    from glotaran.parameter import Parameter

    if cfg["kind"] == "roundtrip":
        # the counterexample's value (or 1.0) and a sweep of magnitudes: "very large / small magnitudes" are part of the quantifier and
        # the place where a transformation that is exact on paper loses digits
        sweep = [env.get("v", 1.0)] + ([] if env.get("v") is not None and data.get("single") else
                                       [1.0, 2.6e-12, 7.3e-9, 1e-5, 0.37, 42.0, 3.1e7, 8.8e11])
        for v in sweep:
            kw = {}
            if cfg["lo"] == "sym":
                kw["minimum"] = env.get("lo", v - 1) if v == sweep[0] else (0.5 * v if cfg["nn"] else v - abs(v))
            if cfg["lo"] == "zero":
                kw["minimum"] = 0.0
            if cfg["hi"] == "sym":
                kw["maximum"] = env.get("hi", v + 1) if v == sweep[0] else 2.0 * abs(v) + (0 if cfg["nn"] else 1)
            with warnings.catch_warnings():
                warnings.simplefilter("ignore")
                try:
                    p = Parameter(label="p", value=float(v), non_negative=cfg["nn"], **kw)
                except Exception:  # noqa: BLE001 - value outside the bounds of this combination
                    continue
                x, lb, ub = p.get_value_and_bounds_for_optimization()
                p.set_value_from_optimization(x)
                if not (abs(p.value - v) <= 1e-9 * abs(v)):
                    return True, f"Parameter(value={v}, non_negative={cfg['nn']}, {kw}): round trip gives {p.value}"
                if not (lb <= x + 1e-9 and x - 1e-9 <= ub):
                    return True, f"Parameter(value={v}, non_negative={cfg['nn']}, {kw}): x0 {x} outside bounds [{lb}, {ub}]"
                lo, hi = kw.get("minimum", -INF), kw.get("maximum", INF)
                for y in ([env.get("y", x)] if v == sweep[0] else []) + [lb, ub]:
                    if not (np.isfinite(y) and lb <= y <= ub):
                        continue
                    p.set_value_from_optimization(y)
                    if not (lo - 1e-9 * abs(lo) - 1e-300 <= p.value <= hi + 1e-9 * abs(hi) + 1e-300) or (cfg["nn"] and not p.value > 0):
                        return True, (f"Parameter({kw}, non_negative={cfg['nn']}): optimiser value {y} inside the transformed bounds [{lb},{ub}] "
                                      f"maps to {p.value}, outside [{lo}, {hi}]")
        return False, "round trip ok"
    if cfg["kind"] == "vector":
        def val(n):
            return float(env.get(n, {"v": 1.5, "l": 0.5, "h": 3.0}[n[0]]))
        with warnings.catch_warnings():
            warnings.simplefilter("ignore")
            params, spec, _ = vector_params(cfg, val)
            before = {lab: params.get(lab).value for lab, _ in spec}
            free, x0, lb, ub = params.get_label_value_and_bounds_arrays(exclude_non_vary=True)
            want = [lab for lab, k in spec if not k.startswith("fixed") and k != "expr"]
            if list(free) != want:
                return True, f"flags {cfg['arr']}: optimiser vector holds {list(free)}, expected {want}"
            y = np.array([float(env.get(f"y{k}", x0[k])) for k in range(len(free))])
            y = np.minimum(np.maximum(y, lb), ub)
            params.set_from_label_and_value_arrays(free, y)
            for lab, k in spec:
                p = params.get(lab)
                if k.startswith("fixed") and p.value != before[lab]:
                    return True, f"flags {cfg['arr']}: fixed parameter {lab} changed from {before[lab]} to {p.value}"
                if not k.startswith("fixed") and k != "expr":
                    j = want.index(lab)
                    wantv = math.exp(y[j]) if p.non_negative else y[j]
                    if abs(p.value - wantv) > 1e-9 * max(1, abs(wantv)):
                        return True, f"flags {cfg['arr']}: free parameter {lab} got {p.value}, optimiser entry {j} gives {wantv}"
                    if not (p.minimum - 1e-9 <= p.value <= p.maximum + 1e-9):
                        return True, f"flags {cfg['arr']}: {lab} = {p.value} outside [{p.minimum}, {p.maximum}]"
                if k == "expr":
                    s = [l_ for l_, kk in spec if kk != "expr"][0]
                    if abs(p.value - (params.get(s).value * 2 + 1)) > 1e-9:
                        return True, f"flags {cfg['arr']}: expression parameter {lab} = {p.value} is stale"
            stages, alll = flag_changes(params, spec)
            for what, want_, got_ in stages:
                if want_ != got_:
                    return True, f"flags {cfg['arr']}: after the in-place change '{what}' the optimiser vector holds {got_}, expected {want_}"
        return False, "vector ok"
    # optimize
    for e in (c02.salted("r1"), c02.DefaultEnv(dict(env))):
        seen = []

        def seen_hook(mc, dm, seen=seen):
            o_ = pl.FAULT_HOOK.get("opt")  # the optimizer under test (set by float_optimize)
            if o_ is not None and len(seen) < 12:
                seen.append({p_.label: p_.value for p_ in o_._parameters.all()})

        if cfg.get("expr_params"):
            pl.FAULT_HOOK["hook"] = seen_hook
        try:
            res, ls = c13.float_optimize(cfg, e, K=max(3, cfg.get("K", 2)))
        except Exception as ex:  # noqa: BLE001
            return True, f"config {cfg['name']}: optimize raised {type(ex).__name__}: {ex}"
        finally:
            pl.FAULT_HOOK.pop("hook", None)
        for snap in seen:
            plain = {k_: v_ for k_, v_ in snap.items() if k_ not in cfg["expr_params"]}
            want_ = pl.with_expression_values(cfg, plain)
            for lab in cfg["expr_params"]:
                if not abs(snap[lab] - want_[lab]) <= 1e-9 * max(1.0, abs(want_[lab])):
                    return True, (f"config {cfg['name']}: the model was evaluated with expression parameter {lab} = {snap[lab]} while its "
                                  f"definition {cfg['expr_params'][lab]!r} gives {want_[lab]} on the current values {plain}")
        free = optim.free_parameter_spec(cfg)
        if list(res.free_parameter_labels) != free:
            return True, f"config {cfg['name']}: free parameters {res.free_parameter_labels}, expected {free}"
        opts = cfg.get("param_options", {})
        cov_ = np.asarray(res.covariance_matrix)
        if cov_.shape != (len(free), len(free)) or np.asarray(res.jacobian).shape[1] != len(free):
            return True, (f"config {cfg['name']}: {len(free)} free parameters {free}, Jacobian with {np.asarray(res.jacobian).shape[1]} columns, "
                          f"covariance of shape {cov_.shape} (optimiser reported active_mask {getattr(ls, 'active_mask', None)})")
        for lab in free:
            se_ = res.optimized_parameters.get(lab).standard_error
            if se_ != se_:
                return True, f"config {cfg['name']}: free parameter {lab} has no standard error (active_mask {getattr(ls, 'active_mask', None)})"
        init = res.scheme.parameters
        hist = res.parameter_history
        sets = [res.optimized_parameters]
        for r in range(hist.number_of_records):
            ps = init.copy()
            ps.set_from_history(hist, r)
            sets.append(ps)
        for ps in sets:
            for p in ps.all():
                o = opts.get(p.label, {})
                if not o.get("vary", True) and p.label not in cfg.get("expr_params", {}) and abs(p.value - init.get(p.label).value) > 1e-9 * abs(p.value):
                    return True, f"config {cfg['name']}: fixed parameter {p.label} changed to {p.value}"
                if o.get("non-negative") and not p.value > 0:
                    return True, f"config {cfg['name']}: non-negative parameter {p.label} = {p.value}"
    return False, "optimize ok"
