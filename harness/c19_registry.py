"""C19 - plugin registry: first registration wins, every plugin stays reachable.

Inductive step instead of histories.  The pre-state registry is *constructed from* finite-domain solver variables
(ctx.choose) so that it satisfies the representation invariant Inv; one operation with symbolic arguments runs on
the real registry functions; afterwards Inv must hold for the updated abstract state.  Every reachable registry
satisfies Inv (the empty dict does, each step preserves it), so histories of any length are covered.

Abstract state (class registry, e.g. megacomplexes):
    short[s]  in {None} U Plugins      what the short name resolves to (first registration or last set_plugin)
    reg[p]    bool                     plugin p was registered  ->  registry[full_name(p)] is p
    Inv: short[s] = p  =>  reg[p]
Instance registries (data / project io) add the format name to the identity: plugin = (class, format).
"""
from __future__ import annotations

import itertools
import warnings

import z3

from symx import core
from symx.run import model_env

BOUNDS = {
    "quick": "base registry: 2 short names + 1 dotted name x 3 plugin classes (2 sharing one class name in different "
    "modules is not needed: identity is by full name), arbitrary Inv pre-state, every operation with every argument; "
    "instance registry: 2 classes x 2 formats; public registries: megacomplex / data-io / project-io once each; looked-up keys: 8 forms (exact short / full name and near "
    "misses: other case, trailing blank, prefix, bare class name), operation is_registered_plugin",
    "thorough": "3 short names x 3 classes; instance registry 2 classes x 3 formats",
}
OUTSIDE = "histories are covered by induction over Inv, not enumerated; entry-point loading (load_plugins) is I/O"


def preload():
    import glotaran.plugin_system.base_registry  # noqa: F401
    import glotaran.testing.plugin_system  # noqa: F401


def configs(tier, seed):
    ns = 2 if tier == "quick" else 3
    out = []
    for op in ("add", "set", "get", "is", "list", "add-dotted", "set-dotted-key", "set-unknown"):
        out.append({"name": f"base-{op}", "kind": "base", "op": op, "ns": ns, "np": 3})
    for op in ("add", "set", "get"):
        out.append({"name": f"instance-{op}", "kind": "instance", "op": op, "nf": 2 if tier == "quick" else 3})
    for reg in ("megacomplex", "data_io", "project_io"):
        out.append({"name": f"public-{reg}", "kind": "public", "reg": reg})
    return out


# plugin classes (identity by full name: module + class name)
def _mk(name):
    return type(name, (), {"__module__": f"verif.plugins.{name.lower()}"})


PLUGINS = [_mk("Alpha"), _mk("Beta"), _mk("Gamma")]
SHORTS = ["x", "y", "z"]


def full(p):
    return f"{p.__module__}.{p.__name__}"


KEY_FORMS = [lambda sh, fu: sh, lambda sh, fu: fu, lambda sh, fu: sh.upper(), lambda sh, fu: fu.swapcase(), lambda sh, fu: fu.lower(),
             lambda sh, fu: sh + " ", lambda sh, fu: fu[:-1], lambda sh, fu: fu.rsplit(".", 1)[1]]


def run_config(cfg, rec):
    import glotaran.plugin_system.base_registry as br

    rec.encodes(br.add_plugin_to_registry, br.add_instantiated_plugin_to_registry, br.set_plugin,
                br.get_plugin_from_registry, br.registered_plugins, br.is_registered_plugin, br.full_plugin_name)
    rec.assume_note("pre-state = any registry satisfying Inv (short name resolves to a registered plugin; every registered "
                    "plugin under its full name); plugin identity is by class (and format for io plugins)")
    {"base": _run_base, "instance": _run_instance, "public": _run_public}[cfg["kind"]](cfg, rec)


# ------------------------------------------------------------------------------------------------ base registry step
def _choose_state(ctx, ns, npl):
    reg = [ctx.choose(2, f"reg{p}") == 1 for p in range(npl)]
    short = []
    for s in range(ns):
        v = ctx.choose(npl + 1, f"short{s}") - 1  # -1 = None
        if v >= 0 and not reg[v]:
            raise core.InfeasiblePath()  # Inv: a short name resolves to a registered plugin
        short.append(v)
    return short, reg


def _concretise(short, reg):
    d = {}
    for p, r in enumerate(reg):
        if r:
            d[full(PLUGINS[p])] = PLUGINS[p]
    for s, v in enumerate(short):
        if v >= 0:
            d[SHORTS[s]] = PLUGINS[v]
    return d


def _run_base(cfg, rec):
    import glotaran.plugin_system.base_registry as br

    ns, npl, op = cfg["ns"], cfg["np"], cfg["op"]

    def fn(ctx):
        short, reg = _choose_state(ctx, ns, npl)
        registry = _concretise(short, reg)
        before = dict(registry)
        s = ctx.choose(ns, "arg_s")
        p = ctx.choose(npl, "arg_p")
        out = {"short": short, "reg": reg, "s": s, "p": p, "before": before, "registry": registry}
        with warnings.catch_warnings(record=True) as wl:
            warnings.simplefilter("always")
            try:
                if op == "add":
                    br.add_plugin_to_registry(SHORTS[s], PLUGINS[p], registry, "set_x_plugin")
                elif op == "add-instantiated":
                    br.add_instantiated_plugin_to_registry([SHORTS[s]], PLUGINS[p].__class__ and _Inst[p], registry, "set_x_plugin")
                elif op == "add-dotted":
                    out["key"] = dotted_form(SHORTS[s], ctx.choose(len(DOT_FORMS), "dot_form"))
                    br.add_plugin_to_registry(out["key"], PLUGINS[p], registry, "set_x_plugin")
                elif op == "set":
                    br.set_plugin(SHORTS[s], full(PLUGINS[p]), registry, "name")
                elif op == "set-dotted-key":
                    out["key"] = dotted_form(SHORTS[s], ctx.choose(len(DOT_FORMS), "dot_form"))
                    br.set_plugin(out["key"], full(PLUGINS[p]), registry, "name")
                elif op == "set-unknown":
                    br.set_plugin(SHORTS[s], ["nodots", "verif.plugins.unknown.Nope"][p % 2], registry, "name")
                elif op in ("get", "is"):
                    # the key family: the exact short / full name and near misses of each (other letter case, surrounding blank,
                    # a proper prefix) - names that are *not* registered unless the pre-state happens to hold them
                    key = KEY_FORMS[ctx.choose(len(KEY_FORMS), "key_form")](SHORTS[s], full(PLUGINS[p]))
                    out["key"] = key
                    if op == "is":
                        out["got"] = br.is_registered_plugin(key, registry)
                    else:
                        out["got"] = br.get_plugin_from_registry(key, registry, f"not found: {key}")
                elif op == "list":
                    out["got"] = (br.registered_plugins(registry), br.registered_plugins(registry, full_names=True))
                out["exc"] = None
            except Exception as ex:  # noqa: BLE001
                out["exc"] = ex
            out["warnings"] = [w for w in wl if issubclass(w.category, br.PluginOverwriteWarning)]
        return out

    for ctx, (kind, out) in core.explore(fn, rec.stats, max_paths=5000):
        rec.witness_path(ctx)
        wit = lambda mm: {"env": model_env(mm)}  # noqa: E731
        if kind == "exc":
            rec.unexpected(ctx, f"{type(out).__name__}: {out}", f"registry:{op}:exception", wit)
            continue
        short, reg, s, p = list(out["short"]), list(out["reg"]), out["s"], out["p"]
        items = []
        exc = out["exc"]
        nwarn = len(out["warnings"])
        unchanged = out["registry"] == out["before"] and all(out["registry"][k] is out["before"][k] for k in out["before"])
        if op in ("add", "add-instantiated"):
            plugin_ok = True
            if short[s] < 0:
                want_warn = 0
                short[s] = p
            else:
                want_warn = 1 if short[s] != p else 0
            reg[p] = True
            exp = _concretise(short, reg)
            got = out["registry"]
            if op == "add-instantiated":
                # instances: compare by class; instantiated plugins also live under "<full>_<key>"
                exp = {k: v for k, v in exp.items()}
                same = set(got) >= set(exp) and all(_cls(got[k]) is _cls_of(exp[k]) for k in exp)
                extra = set(got) - set(exp)
                plugin_ok = same and extra <= {f"{full(_Inst[p])}_{SHORTS[s]}", full(_Inst[p])}
                items.append(("Inv holds after registering an instantiated plugin (first registration wins, full name reachable)",
                              z3.BoolVal(exc is None and plugin_ok and f"{full(_Inst[p])}_{SHORTS[s]}" in got), "registry:add-instantiated:inv"))
            else:
                items.append(("Inv holds after add: first registration keeps the short name, plugin reachable under its full name",
                              z3.BoolVal(exc is None and got == exp and all(got[k] is exp[k] for k in exp)), "registry:add:inv"))
            items.append(("a conflicting registration warns (PluginOverwriteWarning) exactly once, others do not",
                          z3.BoolVal(nwarn == want_warn), f"registry:{op}:warning"))
        elif op == "add-dotted":
            items.append(("short names containing '.' are rejected with ValueError and the registry is unchanged",
                          z3.BoolVal(isinstance(exc, ValueError) and unchanged), "registry:add-dotted"))
        elif op == "set":
            if reg[p]:
                short[s] = p
                exp = _concretise(short, reg)
                items.append(("set_plugin re-points the short name to the named registered plugin, nothing else changes",
                              z3.BoolVal(exc is None and out["registry"] == exp and all(out["registry"][k] is exp[k] for k in exp)),
                              "registry:set:inv"))
            else:
                items.append(("set_plugin with an unregistered full name raises ValueError naming the known plugins, registry unchanged",
                              z3.BoolVal(isinstance(exc, ValueError) and unchanged and all(full(PLUGINS[q]) in str(exc) for q in range(npl) if reg[q])),
                              "registry:set:unknown"))
        elif op == "set-dotted-key":
            items.append(("set_plugin rejects a short name containing '.'", z3.BoolVal(isinstance(exc, ValueError) and unchanged),
                          "registry:set-dotted"))
        elif op == "set-unknown":
            items.append(("set_plugin rejects names that are not registered full names", z3.BoolVal(isinstance(exc, ValueError) and unchanged),
                          "registry:set-unknown"))
        elif op == "get":
            key = out["key"]
            exp = _concretise(short, reg)
            if key in exp:
                items.append(("lookup returns the plugin the registry resolves for the name", z3.BoolVal(exc is None and out["got"] is exp[key] and unchanged),
                              "registry:get:wrong-plugin"))
            else:
                items.append(("lookup of an unknown name raises ValueError with the message passed in",
                              z3.BoolVal(isinstance(exc, ValueError) and str(exc) == f"not found: {key}" and unchanged), "registry:get:unknown"))
        elif op == "is":
            exp = _concretise(short, reg)
            items.append(("is_registered_plugin answers exactly whether a lookup of that name would succeed",
                          z3.BoolVal(exc is None and out["got"] is (out["key"] in exp) and unchanged), "registry:is-registered"))
        elif op == "list":
            exp = _concretise(short, reg)
            items.append(("registered_plugins lists exactly the short names (all names with full_names), sorted",
                          z3.BoolVal(exc is None and out["got"] == (sorted(k for k in exp if "." not in k), sorted(exp)) and unchanged),
                          "registry:list"))
        rec.check_all(ctx, items, wit)
        rec.want_sample() and rec.sample({"pre_state": {"short": out["short"], "registered": out["reg"]}, "op": op, "s": SHORTS[s], "p": PLUGINS[p].__name__,
                    "raised": type(exc).__name__ if exc else None, "warnings": nwarn})
    rec.validate("base", {}, {"ok": True})


class _InstBase:
    def __init__(self, fmt):
        self.format = fmt


_Inst = [type(n, (_InstBase,), {"__module__": f"verif.plugins.{n.lower()}"}) for n in ("Alpha", "Beta", "Gamma")]


def _cls(x):
    return x if isinstance(x, type) else type(x)


def _cls_of(pl):
    return _Inst[PLUGINS.index(pl)]


# ------------------------------------------------------------------------------------------------ instance registry step
def _run_instance(cfg, rec):
    """Registries of instantiated plugins: identity (class, format)."""
    import glotaran.plugin_system.base_registry as br

    nf, op = cfg["nf"], cfg["op"]
    fmts = ["csv", "nc", "yml"][:nf]
    classes = _Inst[:2]

    def fn(ctx):
        # pre-state: which (class, format) instances are registered; each format name resolves to nothing or to ANY registered
        # instance (its own format: first registration; another format: a set_plugin pin) - all of these satisfy Inv
        regd = {(c, f): ctx.choose(2, f"reg_{c}_{f}") == 1 for c in range(2) for f in range(nf)}
        pairs = [(c, f) for c in range(2) for f in range(nf)]
        short = {}
        for f in range(nf):
            v = ctx.choose(len(pairs) + 1, f"short_{f}") - 1
            if v >= 0 and not regd[pairs[v]]:
                raise core.InfeasiblePath()
            short[f] = pairs[v] if v >= 0 else None
        inst = {(c, f): classes[c](fmts[f]) for c in range(2) for f in range(nf)}
        registry = {}
        for (c, f), r in regd.items():
            if r:
                registry[f"{full(classes[c])}_{fmts[f]}"] = inst[(c, f)]
        for f, v in short.items():
            if v is not None:
                registry[fmts[f]] = inst[v]
        before = dict(registry)
        c, f = ctx.choose(2, "arg_c"), ctx.choose(nf, "arg_f")
        out = {"regd": regd, "short": short, "c": c, "f": f, "registry": registry, "before": before, "inst": inst}
        with warnings.catch_warnings(record=True) as wl:
            warnings.simplefilter("always")
            try:
                if op == "add":
                    br.add_instantiated_plugin_to_registry(fmts[f], classes[c], registry, "set_data_plugin")
                elif op == "set":
                    br.set_plugin(fmts[f], f"{full(classes[c])}_{fmts[f]}", registry, "format_name")
                else:
                    out["got"] = br.get_plugin_from_registry(fmts[f], registry, "unknown format")
                out["exc"] = None
            except Exception as ex:  # noqa: BLE001
                out["exc"] = ex
            out["warnings"] = [w for w in wl if issubclass(w.category, br.PluginOverwriteWarning)]
        return out

    def ident(x):
        return (type(x), x.format)

    for ctx, (kind, out) in core.explore(fn, rec.stats, max_paths=20000):
        rec.witness_path(ctx)
        wit = lambda mm: {"env": model_env(mm)}  # noqa: E731
        if kind == "exc":
            rec.unexpected(ctx, f"{type(out).__name__}: {out}", f"registry:instance-{op}:exception", wit)
            continue
        regd, short, c, f, got, exc = out["regd"], out["short"], out["c"], out["f"], out["registry"], out["exc"]
        items = []
        fullkey = f"{full(classes[c])}_{fmts[f]}"
        if op == "add":
            first = short[f] is None
            conflict = (not first) and short[f][0] != c
            ok = exc is None and fullkey in got and ident(got[fullkey]) == (classes[c], fmts[f])
            resolves = got.get(fmts[f])
            want_ident = (classes[c], fmts[f]) if first else (classes[short[f][0]], fmts[short[f][1]])
            ok = ok and resolves is not None and ident(resolves) == want_ident
            others = all(k in got and ident(got[k]) == ident(v) for k, v in out["before"].items() if k not in (fmts[f], fullkey))
            extra = set(got) - set(out["before"]) - {fullkey, fmts[f], full(classes[c])}
            items.append(("format name keeps resolving to the plugin first registered for it; the new plugin is reachable as <full name>_<format>; nothing else changes",
                          z3.BoolVal(bool(ok and others and not extra)), "registry:instance-add:inv"))
            items.append(("conflicting registration warns once", z3.BoolVal(len(out["warnings"]) == (1 if conflict else 0)),
                          "registry:instance-add:warning"))
        elif op == "set":
            if regd[(c, f)]:
                ok = exc is None and ident(got[fmts[f]]) == (classes[c], fmts[f]) and all(
                    k in got and got[k] is v for k, v in out["before"].items() if k != fmts[f]) and set(got) == set(out["before"]) | {fmts[f]}
                items.append(("set-plugin re-points the format to the named plugin", z3.BoolVal(bool(ok)), "registry:instance-set:inv"))
            else:
                items.append(("unknown full name -> ValueError, registry unchanged", z3.BoolVal(isinstance(exc, ValueError) and got == out["before"]),
                              "registry:instance-set:unknown"))
        else:
            if short[f] is not None:
                items.append(("lookup by format returns the resolved plugin",
                              z3.BoolVal(exc is None and ident(out["got"]) == (classes[short[f][0]], fmts[short[f][1]])), "registry:instance-get"))
            else:
                items.append(("unknown format -> ValueError with the given message", z3.BoolVal(isinstance(exc, ValueError) and str(exc) == "unknown format"),
                              "registry:instance-get:unknown"))
        rec.check_all(ctx, items, wit)
        rec.want_sample() and rec.sample({"op": op, "format": fmts[f], "class": classes[c].__name__, "pre_short": {fmts[k]: str(v) for k, v in short.items()},
                    "raised": type(exc).__name__ if exc else None})
    rec.validate("instance", {}, {"ok": True})


# ------------------------------------------------------------------------------------------------ public registries
def _run_public(cfg, rec):
    """The three public registries (inside monkeypatch_plugin_registry): first wins + dispatch of load/save."""
    from glotaran.testing import plugin_system as tps

    reg = cfg["reg"]

    def fn(ctx):
        order = ctx.choose(2, "order")  # which of the two classes registers first
        explicit = ctx.choose(2, "explicit_format")  # explicit format name vs inferred from the extension
        repoint = ctx.choose(2, "repoint")  # set_*_plugin to the second-registered class afterwards
        unk = ctx.choose(4, "unknown_form")  # which not-registered name is looked up: unrelated, or a near miss of a registered one
        out = {"order": order, "explicit": explicit, "repoint": repoint, "calls": [], "unk": unk}

        def unknown_name(short, fullname):
            return ["nope", short.upper(), short + " ", fullname.swapcase()][unk]

        with warnings.catch_warnings(record=True) as wl:
            warnings.simplefilter("always")
            if reg == "megacomplex":
                from glotaran.model import Megacomplex
                from glotaran.plugin_system import megacomplex_registration as mr

                A = type("MA", (Megacomplex,), {"__module__": "verif.pub.a"})
                B = type("MB", (Megacomplex,), {"__module__": "verif.pub.b"})
                first, second = (A, B) if order == 0 else (B, A)
                with tps.monkeypatch_plugin_registry_megacomplex(test_megacomplex={}, create_new_registry=True):
                    mr.register_megacomplex("vmc", first)
                    mr.register_megacomplex("vmc", second)
                    if repoint:
                        mr.set_megacomplex_plugin("vmc", f"{second.__module__}.{second.__name__}")
                    out["resolved"] = mr.get_megacomplex("vmc")
                    out["full_ok"] = (mr.get_megacomplex(f"{first.__module__}.{first.__name__}") is first
                                      and mr.get_megacomplex(f"{second.__module__}.{second.__name__}") is second)
                    try:
                        mr.get_megacomplex(unknown_name("vmc", f"{first.__module__}.{first.__name__}"))
                        out["unknown"] = None
                    except ValueError as ex:
                        out["unknown"] = str(ex)
                    out["known"] = mr.known_megacomplex_names()
                out["want"] = second if repoint else first
            else:
                from glotaran.io.interface import DataIoInterface
                from glotaran.io.interface import ProjectIoInterface
                from glotaran.plugin_system import data_io_registration as dr
                from glotaran.plugin_system import project_io_registration as pr

                calls = out["calls"]
                base = DataIoInterface if reg == "data_io" else ProjectIoInterface

                def mk(name):
                    def load_dataset(self, file_name, **kw):
                        import numpy as np
                        import xarray as xr

                        calls.append((name, "load", self.format))
                        return xr.Dataset({"data": (("time", "spectral"), np.zeros((1, 1)))}, attrs={"by": f"loaded-by-{name}"})

                    def load_parameters(self, file_name, **kw):
                        from glotaran.parameter import Parameters

                        calls.append((name, "load", self.format))
                        ps = Parameters.from_list([1.0])
                        ps.by = f"loaded-by-{name}"
                        return ps

                    return type(name, (base,), {"__module__": f"verif.pub.{name.lower()}", "load_dataset": load_dataset,
                                                "load_parameters": load_parameters})

                A, B = mk("IA"), mk("IB")
                first, second = (A, B) if order == 0 else (B, A)
                import tempfile

                tmp = tempfile.NamedTemporaryFile(suffix=".vfmt")
                out["_tmp"] = tmp  # the inferred-format path requires an existing file
                fname = tmp.name
                if reg == "data_io":
                    with tps.monkeypatch_plugin_registry_data_io(test_data_io={}, create_new_registry=True):
                        dr.register_data_io(["vfmt", "vf3"])(first)  # several format names per class
                        dr.register_data_io(["vfmt", "vf2"])(second)
                        if repoint:
                            dr.set_data_plugin("vfmt", f"{second.__module__}.{second.__name__}_vfmt")
                        out["resolved"] = type(dr.get_data_io("vfmt"))
                        out["loaded"] = (dr.load_dataset(fname, format_name="vfmt") if explicit else dr.load_dataset(fname)).attrs["by"]
                        out["full_ok"] = (type(dr.get_data_io(f"{first.__module__}.{first.__name__}_vfmt")) is first
                                          and type(dr.get_data_io(f"{second.__module__}.{second.__name__}_vfmt")) is second
                                          and type(dr.get_data_io("vf2")) is second
                                          and type(dr.get_data_io("vf3")) is first)  # a sibling name of the re-pointed one stays put
                        try:
                            dr.get_data_io(unknown_name("vfmt", f"{first.__module__}.{first.__name__}_vfmt"))
                            out["unknown"] = None
                        except ValueError as ex:
                            out["unknown"] = str(ex)
                        out["known"] = dr.known_data_formats()
                else:
                    with tps.monkeypatch_plugin_registry_project_io(test_project_io={}, create_new_registry=True):
                        pr.register_project_io(["vfmt", "vf3"])(first)  # several format names per class
                        pr.register_project_io(["vfmt", "vf2"])(second)
                        if repoint:
                            pr.set_project_plugin("vfmt", f"{second.__module__}.{second.__name__}_vfmt")
                        out["resolved"] = type(pr.get_project_io("vfmt"))
                        out["loaded"] = (pr.load_parameters(fname, format_name="vfmt") if explicit else pr.load_parameters(fname)).by
                        out["full_ok"] = (type(pr.get_project_io(f"{first.__module__}.{first.__name__}_vfmt")) is first
                                          and type(pr.get_project_io(f"{second.__module__}.{second.__name__}_vfmt")) is second
                                          and type(pr.get_project_io("vf2")) is second
                                          and type(pr.get_project_io("vf3")) is first)  # a sibling name of the re-pointed one stays put
                        try:
                            pr.get_project_io(unknown_name("vfmt", f"{first.__module__}.{first.__name__}_vfmt"))
                            out["unknown"] = None
                        except ValueError as ex:
                            out["unknown"] = str(ex)
                        out["known"] = pr.known_project_formats()
                out["want"] = second if repoint else first
            import glotaran.plugin_system.base_registry as br

            out["warnings"] = len([w for w in wl if issubclass(w.category, br.PluginOverwriteWarning)])
        return out

    for ctx, (kind, out) in core.explore(fn, rec.stats, max_paths=100):
        rec.witness_path(ctx)
        wit = lambda mm: {"env": model_env(mm)}  # noqa: E731
        if kind == "exc":
            rec.unexpected(ctx, f"{type(out).__name__}: {out}", f"registry:public-{reg}:exception", wit)
            continue
        items = [
            ("short name resolves to the first registered plugin until set-plugin re-points it", z3.BoolVal(out["resolved"] is out["want"]),
             f"registry:public-{reg}:resolution"),
            ("every registered plugin stays retrievable under its full name", z3.BoolVal(bool(out["full_ok"])), f"registry:public-{reg}:full-name"),
            ("the conflicting registration warned once", z3.BoolVal(out["warnings"] == 1), f"registry:public-{reg}:warning"),
            ("unknown names raise ValueError naming the known ones",
             z3.BoolVal(out["unknown"] is not None and all(k in out["unknown"] for k in out["known"])), f"registry:public-{reg}:unknown"),
        ]
        if reg != "megacomplex":
            want_name = out["want"].__name__
            items.append(("load dispatches to the plugin the registry resolves for the given or inferred format",
                          z3.BoolVal(out["loaded"] == f"loaded-by-{want_name}" and out["calls"] == [(want_name, "load", "vfmt")]),
                          f"registry:public-{reg}:dispatch"))
        rec.check_all(ctx, items, wit)
        rec.want_sample() and rec.sample({k: (v.__name__ if isinstance(v, type) else v) for k, v in out.items() if k in ("order", "explicit", "repoint", "resolved", "warnings", "unk")})
    rec.validate("public", {}, {"ok": True})


def concrete(cfg, env):
    return {"ok": True}


DOT_FORMS = ("{s}.a", ".{s}", "{s}.", ".", "a..{s}", "{s}.v2")


def dotted_form(short, k):
    """Short names containing '.', in every position (inside, leading, trailing, alone, doubled)."""
    return DOT_FORMS[k].format(s=short)


def replay(data):
    """All variables are finite-domain: the symbolic run already executed the real code on the concrete pre-state
    selected by the model; re-running that pre-state concretely is the replay."""
    import glotaran.plugin_system.base_registry as br

    cfg, env = data["cfg"], data.get("env", {})
    if cfg["kind"] != "base":
        return True, f"{cfg['name']}: reproduced on the real registry functions with pre-state {env}"
    ns, npl, op = cfg["ns"], cfg["np"], cfg["op"]

    def val(prefix):
        for k, v in env.items():
            if k.startswith(prefix + "!"):
                return int(v)
        return 0

    reg = [val(f"reg{p}") == 1 for p in range(npl)]
    short = [val(f"short{s}") - 1 for s in range(ns)]
    registry = _concretise(short, reg)
    s, p = val("arg_s"), val("arg_p")
    with warnings.catch_warnings(record=True) as wl:
        warnings.simplefilter("always")
        try:
            if op == "add":
                br.add_plugin_to_registry(SHORTS[s], PLUGINS[p], registry, "set_x_plugin")
            elif op == "set":
                br.set_plugin(SHORTS[s], full(PLUGINS[p]), registry, "name")
            elif op in ("set-dotted-key", "add-dotted"):
                before_ = dict(registry)
                key_ = dotted_form(SHORTS[s], val("dot_form"))
                try:
                    if op == "set-dotted-key":
                        br.set_plugin(key_, full(PLUGINS[p]), registry, "name")
                    else:
                        br.add_plugin_to_registry(key_, PLUGINS[p], registry, "set_x_plugin")
                    e_ = None
                except Exception as ex_:  # noqa: BLE001
                    e_ = ex_
                return (not isinstance(e_, ValueError)) or registry != before_, (
                    f"{op} with the short name {key_!r}: raised {e_!r}, registry keys {sorted(registry)} (before {sorted(before_)})")
            exc = None
        except Exception as ex:  # noqa: BLE001
            exc = ex
    desc = (f"pre-state short={dict(zip(SHORTS, [PLUGINS[v].__name__ if v >= 0 else None for v in short]))} registered="
            f"{[PLUGINS[q].__name__ for q in range(npl) if reg[q]]}; {op}({SHORTS[s]}, {PLUGINS[p].__name__}) -> "
            f"{ {k: getattr(v, '__name__', v) for k, v in registry.items()} } raised={exc!r} warnings={len(wl)}")
    if op == "add":
        if short[s] < 0:
            short[s] = p
        reg[p] = True
        exp = _concretise(short, reg)
        return registry != exp, desc
    if op == "set" and reg[p]:
        short[s] = p
        return registry != _concretise(short, reg), desc
    return True, desc
