"""C02 - the minimised objective is the documented separable least-squares problem."""
from __future__ import annotations

import random
import warnings

import numpy as np
import z3

from symx import core
from symx.env import Patcher
from symx.run import model_env
from symx.values import SymArray
from symx.values import SymReal
from symx.values import zreal

BOUNDS = {
    "quick": "schemes with 1-3 datasets in 1-2 groups, <= 3x3 data points per dataset, <= 4 clp labels; all data "
    "values, weights, matrix entries, scales, relation/penalty parameters symbolic; axes and interval bounds concrete",
    "thorough": "quick configurations plus 400 seeded feature combinations (up to 4 datasets, 3x3 points)",
}
OUTSIDE = "more than 3 datasets per group, more than 3x3 points per dataset, symbolic coordinates (C09/C08)"

FLOAT_SELFCHECK = True


def preload():
    from harness import pipeline  # noqa: F401
    import glotaran.optimization.optimizer  # noqa: F401


def base_configs():
    A2, A3 = [0.0, 1.0], [0.0, 1.0, 2.0]
    G2, G3 = [1.0, 2.0], [1.0, 2.0, 3.0]
    mc1 = {"m1": {"labels": ["s1", "s2"]}}
    cfgs = []

    def add(name, **kw):
        kw.setdefault("mcs", mc1)
        cfgs.append(dict(name=name, **kw))

    add("single-plain", datasets=[{"label": "d1", "mc": ["m1"], "maxis": A3, "gaxis": G2}])
    add("single-scale-weight-gm", datasets=[{"label": "d1", "mc": ["m1"], "maxis": A3 + [3.5], "gaxis": G3, "scale": "sc1",
                                             "weight": True, "order": "gm"}])
    add("single-indexdep-constraints",
        mcs={"m1": {"labels": ["s1", "s2", "s3"], "idx": True}},
        datasets=[{"label": "d1", "mc": ["m1"], "maxis": A3, "gaxis": G3}],
        constraints=[{"type": "zero", "target": "s1", "interval": [2.0, 3.0]},
                     {"type": "only", "target": "s3", "interval": [1.0, 2.0]}])
    add("single-relation-penalty",
        mcs={"m1": {"labels": ["s1", "s2", "s3"]}},
        datasets=[{"label": "d1", "mc": ["m1"], "maxis": A3, "gaxis": G3, "scale": "sc1"}],
        relations=[{"source": "s1", "target": "s2", "parameter": "rel1", "interval": [1.0, 2.0]}],
        penalties=[{"source": "s1", "source_intervals": [[1.0, 2.0]], "target": "s3", "target_intervals": [[2.0, INF]],
                    "parameter": "pen1"}])
    add("two-mc-shared-labels-scales",
        mcs={"m1": {"labels": ["s1", "s2"]}, "m2": {"labels": ["s2", "s3"], "idx": True}},
        datasets=[{"label": "d1", "mc": ["m1", "m2"], "mc_scale": ["ms1", "ms2"], "maxis": A3, "gaxis": G2}])
    add("model-weight-unlinked",
        datasets=[{"label": "d1", "mc": ["m1"], "maxis": A3, "gaxis": G3}],
        weights=[{"datasets": ["d1"], "global_interval": [2.0, INF], "model_interval": [0.0, 1.0]}],
        groups={"default": {"link_clp": False}})
    add("linked-identical-axes",
        datasets=[{"label": "d1", "mc": ["m1"], "maxis": A2, "gaxis": G2, "scale": "sc1"},
                  {"label": "d2", "mc": ["m1"], "maxis": A3, "gaxis": G2, "weight": True}])
    add("linked-partial-overlap-scale",
        mcs={"m1": {"labels": ["s1", "s2"]}, "m2": {"labels": ["s2", "s3"]}},
        datasets=[{"label": "d1", "mc": ["m1"], "maxis": A2, "gaxis": [1.0, 2.0], "scale": "sc1"},
                  {"label": "d2", "mc": ["m2"], "maxis": A2, "gaxis": [2.0, 3.0], "scale": "sc2"}],
        groups={"default": {"link_clp": True}})
    add("linked-disjoint-tolerance",
        datasets=[{"label": "d1", "mc": ["m1"], "maxis": A2, "gaxis": [1.0, 2.0]},
                  {"label": "d2", "mc": ["m1"], "maxis": A2, "gaxis": [1.1, 3.0], "scale": "sc2"}],
        tol=0.2, groups={"default": {"link_clp": True}})
    add("linked-relation-constraint-penalty",
        mcs={"m1": {"labels": ["s1", "s2", "s3"]}},
        datasets=[{"label": "d1", "mc": ["m1"], "maxis": A2, "gaxis": [1.0, 2.0], "weight": True},
                  {"label": "d2", "mc": ["m1"], "maxis": A2, "gaxis": [2.0, 3.0]}],
        constraints=[{"type": "zero", "target": "s3", "interval": [3.0, 3.0]}],
        relations=[{"source": "s1", "target": "s2", "parameter": "rel1", "interval": [1.0, 2.0]}],
        penalties=[{"source": "s1", "source_intervals": [[1.0, 3.0]], "target": "s3", "target_intervals": [[1.0, 2.0]],
                    "parameter": "pen1"}])
    add("relation-and-constraint-same-clp",
        mcs={"m1": {"labels": ["s1", "s2", "s3"], "idx": True}},
        datasets=[{"label": "d1", "mc": ["m1"], "maxis": A3, "gaxis": G3, "scale": "sc1"}],
        constraints=[{"type": "zero", "target": "s2", "interval": [1.0, 2.0]}],
        relations=[{"source": "s1", "target": "s2", "parameter": "rel1", "interval": [2.0, 3.0]}],
        groups={"default": {"link_clp": False}})
    add("relation-and-only-constraint-same-clp-linked",
        mcs={"m1": {"labels": ["s1", "s2", "s3"]}},
        datasets=[{"label": "d1", "mc": ["m1"], "maxis": A3, "gaxis": [1.0, 2.0]},
                  {"label": "d2", "mc": ["m1"], "maxis": A3, "gaxis": [2.0, 3.0], "scale": "sc2"}],
        constraints=[{"type": "only", "target": "s3", "interval": [1.0, 2.0]}],
        relations=[{"source": "s1", "target": "s3", "parameter": "rel1", "interval": [2.0, 3.0]}],
        groups={"default": {"link_clp": True}})
    add("linked-three-scales-partial-overlap",
        datasets=[{"label": "d1", "mc": ["m1"], "maxis": A2, "gaxis": [1.0, 2.0, 3.0], "scale": "sc1"},
                  {"label": "d2", "mc": ["m1"], "maxis": A3, "gaxis": [2.0, 3.0, 4.0], "scale": "sc2"},
                  {"label": "d3", "mc": ["m1"], "maxis": A3 + [3.0], "gaxis": [1.0, 3.0, 4.0, 5.0], "scale": "sc3"}],
        groups={"default": {"link_clp": True}})
    add("unlinked-two-datasets-nnls",
        datasets=[{"label": "d1", "mc": ["m1"], "maxis": A2, "gaxis": G2},
                  {"label": "d2", "mc": ["m1"], "maxis": A3, "gaxis": G2, "scale": "sc2"}],
        groups={"default": {"link_clp": False, "residual_function": "non_negative_least_squares"}})
    add("two-groups",
        datasets=[{"label": "d1", "mc": ["m1"], "maxis": A2, "gaxis": G2},
                  {"label": "d2", "mc": ["m1"], "maxis": A2, "gaxis": G2, "group": "g2", "scale": "sc2"}],
        groups={"g2": {"link_clp": False, "residual_function": "non_negative_least_squares"}},
        penalties=[{"source": "s1", "source_intervals": [[1.0, 2.0]], "target": "s2", "target_intervals": [[1.0, 2.0]],
                    "parameter": "pen1"}])
    add("full-model",
        gmcs={"g1": {"labels": ["a", "b"]}},
        datasets=[{"label": "d1", "mc": ["m1"], "gmc": ["g1"], "maxis": A3, "gaxis": G2, "weight": True}])
    add("full-model-indexdep-plus-normal",
        mcs={"m1": {"labels": ["s1", "s2"], "idx": True}, "m2": {"labels": ["s1"]}},
        gmcs={"g1": {"labels": ["a"]}, "g2": {"labels": ["a", "b"]}},
        datasets=[{"label": "d1", "mc": ["m1"], "gmc": ["g1", "g2"], "gmc_scale": ["gs1", "gs2"], "maxis": A2, "gaxis": G2},
                  {"label": "d2", "mc": ["m2"], "maxis": A2, "gaxis": G3}])
    add("unlinked-two-datasets-penalties",
        mcs={"m1": {"labels": ["s1", "s2", "s3"]}},
        datasets=[{"label": "d1", "mc": ["m1"], "maxis": A3 + [3.0], "gaxis": G2},
                  {"label": "d2", "mc": ["m1"], "maxis": A3 + [2.5], "gaxis": G3, "scale": "sc2"}],
        groups={"default": {"link_clp": False}},
        penalties=[{"source": "s1", "source_intervals": [[1.0, 2.0]], "target": "s2", "target_intervals": [[1.0, 3.0]],
                    "parameter": "pen1"}])
    add("model-weight-square-gm",
        datasets=[{"label": "d1", "mc": ["m1"], "maxis": A3, "gaxis": G3, "order": "gm"}],
        weights=[{"datasets": ["d1"], "global_interval": [2.0, INF], "model_interval": [0.0, 0.5]}])
    add("linked-chain-overlap-unequal-model-axes",
        datasets=[{"label": "d1", "mc": ["m1"], "maxis": A3 + [3.0], "gaxis": [1.0, 2.0, 3.0]},
                  {"label": "d2", "mc": ["m1"], "maxis": A2, "gaxis": [2.0, 3.0, 4.0]},
                  {"label": "d3", "mc": ["m1"], "maxis": A3, "gaxis": [3.0, 4.0, 5.0], "scale": "sc3"}],
        groups={"default": {"link_clp": True}})
    add("expression-chain-forward", mcs={"m1": {"labels": ["s1", "s2"], "pars": ["kfast", "kslow"]}},
        datasets=[{"label": "d1", "mc": ["m1"], "maxis": A3, "gaxis": G2, "scale": "sc1"}],
        expr_params={"kfast": "$kmid * 2", "kmid": "$ktop + $kslow", "ktop": "$kslow * 3"}, expr_first=True)
    add("linked-second-dataset-two-new-labels",
        mcs={"m1": {"labels": ["s1", "s2"]}, "m2": {"labels": ["s1", "s4", "s3"]}},
        datasets=[{"label": "d1", "mc": ["m1"], "maxis": A3, "gaxis": [1.0, 2.0]},
                  {"label": "d2", "mc": ["m2"], "maxis": A3 + [3.0], "gaxis": [1.0, 2.0, 3.0], "scale": "sc2"}],
        groups={"default": {"link_clp": True}},
        penalties=[{"source": "s3", "source_intervals": [[1.0, 2.0]], "target": "s4", "target_intervals": [[1.0, 3.0]], "parameter": "pen1"}])
    add("linked-three-datasets-tolerance-chain",
        datasets=[{"label": "d1", "mc": ["m1"], "maxis": A2, "gaxis": [1.0, 2.0, 3.0]},
                  {"label": "d2", "mc": ["m1"], "maxis": A3, "gaxis": [1.1, 2.1, 4.1], "scale": "sc2"},
                  {"label": "d3", "mc": ["m1"], "maxis": A2, "gaxis": [1.15, 2.15, 4.0], "weight": True}],
        tol=0.2, groups={"default": {"link_clp": True}})
    add("full-model-nnls",
        gmcs={"g1": {"labels": ["a", "b"]}},
        datasets=[{"label": "d1", "mc": ["m1"], "gmc": ["g1"], "maxis": A3, "gaxis": G2}],
        groups={"default": {"link_clp": False, "residual_function": "non_negative_least_squares"}})
    add("param-dependent-matrix",
        mcs={"m1": {"labels": ["s1", "s2"], "pars": ["k1", "k2"]}},
        datasets=[{"label": "d1", "mc": ["m1"], "maxis": A2, "gaxis": G2}])
    add("linked-three-datasets-mixed-weights",
        mcs={"m1": {"labels": ["s1", "s2"]}, "m2": {"labels": ["s3", "s1"], "idx": True}},
        datasets=[{"label": "d1", "mc": ["m1"], "maxis": A2, "gaxis": [1.0, 2.0, 3.0]},
                  {"label": "d2", "mc": ["m2"], "maxis": A2, "gaxis": [2.0, 3.0], "weight": True, "scale": "sc2"},
                  {"label": "d3", "mc": ["m1", "m2"], "maxis": A3, "gaxis": [3.0, 4.0]}],
        weights=[{"datasets": ["d3"], "global_interval": [4.0, 4.0]}])
    return cfgs


INF = float("inf")


def random_configs(n, seed, max_datasets=3):
    rng = random.Random(seed)
    out = []
    for i in range(n):
        nds = rng.choice([1, 2, 2, 3] + ([4] if max_datasets >= 4 else []))
        mcs = {"m1": {"labels": ["s1", "s2"], "idx": rng.random() < 0.3},
               "m2": {"labels": rng.choice([["s2", "s3"], ["s3"], ["s1", "s3"]]), "idx": rng.random() < 0.3}}
        link = rng.choice([True, False, None])
        dss = []
        for k in range(nds):
            g0 = rng.choice([1.0, 2.0])
            ng = rng.choice([2, 3])
            mc = rng.choice([["m1"], ["m2"], ["m1", "m2"], ["m2", "m1"]])
            ds = {"label": f"d{k+1}", "mc": mc, "maxis": [0.0, 1.0][: rng.choice([1, 2])] if rng.random() < 0.3 else [0.0, 1.0, 2.5][: rng.choice([2, 3])],
                  "gaxis": [g0 + j for j in range(ng)]}
            if rng.random() < 0.5:
                ds["scale"] = f"sc{k+1}"
            if rng.random() < 0.4:
                ds["weight"] = True
            if rng.random() < 0.3 and len(mc) == 2:
                ds["mc_scale"] = ["ms1", "ms2"]
            if rng.random() < 0.3:
                ds["order"] = "gm"
            dss.append(ds)
        cfg = {"name": f"rand-{seed}-{i}", "mcs": mcs, "datasets": dss, "groups": {"default": {"link_clp": link}}}
        if rng.random() < 0.2:
            cfg["groups"]["default"]["residual_function"] = "non_negative_least_squares"
        if rng.random() < 0.5:
            cfg["constraints"] = [{"type": rng.choice(["zero", "only"]), "target": rng.choice(["s1", "s3"]),
                                   "interval": rng.choice([[1.0, 2.0], [2.0, 3.0], [3.0, INF], [[1.0, 1.0], [3.0, 4.0]]])}]
        if rng.random() < 0.4:
            cfg["relations"] = [{"source": "s2", "target": rng.choice(["s1", "s3"]), "parameter": "rel1",
                                 "interval": rng.choice([None, [1.0, 2.0], [2.0, 4.0]])}]
        if rng.random() < 0.4:
            cfg["penalties"] = [{"source": "s2", "source_intervals": [rng.choice([[1.0, 2.0], [1.0, 4.0]])], "target": "s3",
                                 "target_intervals": [rng.choice([[2.0, 3.0], [1.0, INF]])], "parameter": "pen1"}]
        if rng.random() < 0.3:
            cfg["weights"] = [{"datasets": [rng.choice(["d1", "d2"])], "global_interval": rng.choice([None, [2.0, 3.0]]),
                               "model_interval": rng.choice([None, [0.0, 1.0]])}]
        out.append(cfg)
    return out


def configs(tier, seed, n_random=None):
    from harness import pipeline as pl

    cfgs = base_configs()
    bad = [c["name"] for c in cfgs if not pl.valid_cfg(c)]
    assert not bad, f"invalid base configurations {bad}"
    want = n_random if n_random is not None else (8 if tier == "quick" else 400)
    rnd = [c for c in random_configs(want * 3, seed, max_datasets=3 if tier == "quick" else 4) if pl.valid_cfg(c)][:want]
    return cfgs + rnd


# ------------------------------------------------------------------------------------------------
def symbolic_run(cfg, rec, after=None):
    """Run the real pipeline on terms; yields (ctx, scheme, optimizer, stubs, penalty|exception)."""
    from harness import pipeline as pl
    from glotaran.optimization.optimizer import Optimizer

    with Patcher() as p:
        src = pl.Source(None)
        stubs = pl.install(p, src)
        rec.shims += p.record

        def fn(ctx):
            for s in stubs.values():
                s.calls.clear()
                s.cache.clear()
                s.phase = 0
            with warnings.catch_warnings():
                warnings.simplefilter("ignore")
                scheme = pl.build_scheme(cfg, src)
                opt = Optimizer(scheme, verbose=False)
                pen = opt.calculate_penalty()
                extra = after(ctx, scheme, opt, stubs) if after else None
            return scheme, opt, pen, extra

        for ctx, (kind, out) in core.explore(fn, rec.stats, max_paths=200):
            yield ctx, src, stubs, kind, out


def ordered_calls(stubs, phase=0):
    """The recorded solver calls do not carry a global order across the two stub objects: merge by id."""
    calls = []
    for s in stubs.values():
        calls += [c for c in s.calls if c.get("phase", 0) == phase]
    return calls


def evaluate_moved(ctx, scheme, opt, stubs):
    """Objective at an arbitrary optimiser vector XM (fresh symbols, one per free parameter): returns (labels, pv_override, penalty).

    The linear-solver calls of this evaluation are recorded under phase 1."""
    labels, x0, lb, ub = opt._parameters.get_label_value_and_bounds_arrays(exclude_non_vary=True)
    labels = list(labels)
    if not labels:
        return None
    opt._free_parameter_labels = labels
    X = SymArray((len(labels),))
    override = {}
    for k, lab in enumerate(labels):
        X[k] = SymReal(z3.Real(f"XM_{lab}"))
        override[lab] = ctx.uf("exp", X[k].e) if scheme.parameters.get(lab).non_negative else X[k].e
    for s in stubs.values():
        s.phase = 1
    try:
        pen = opt.objective_function(X)
    finally:
        for s in stubs.values():
            s.phase = 0
    return labels, override, pen


def check_objective(cfg, rec, ctx, src, calls, pen, fp_prefix="objective", pv_override=None):
    """Obligations of C02 on one path. Returns (problems, mappings, pv) or None when structure is wrong."""
    from harness import pipeline as pl

    problems, pen_specs, pv = pl.spec_problems(cfg, src, pv_override)
    wit = lambda mm: {"env": model_env(mm)}  # noqa: E731
    if len(calls) != len(problems):
        rec.unexpected(ctx, f"{len(calls)} linear problems solved, specification has {len(problems)}",
                       f"{fp_prefix}:number-of-problems", wit)
        return None
    items = []
    mappings = []
    for k, (call, pb) in enumerate(zip(calls, problems)):
        if call["fn"] != pb["fn"]:
            rec.unexpected(ctx, f"problem {k} solved with {call['fn']}, group declares {pb['fn']}",
                           f"{fp_prefix}:residual-function", wit)
            return None
        mat, dat = call["matrix"], call["data"]
        if mat.shape[0] != len(pb["rows"]) or dat.shape[0] != len(pb["rows"]):
            rec.unexpected(ctx, f"problem {k} ({pb['ds']} @ {pb['index_value']}) has {mat.shape[0]} rows, expected {len(pb['rows'])}",
                           f"{fp_prefix}:rows", wit)
            return None
        mapping, why = pl.match_columns(ctx, mat, pb["cols"], pb["labels"])
        if mapping is None:
            kind = "linked" if len(pb["ds"]) > 1 or pl.group_is_linked(cfg, pb["group"], pl.groups_of(cfg)[pb["group"]]) else "unlinked"
            rec.unexpected(ctx, f"problem {k} ({pb['ds']} @ {pb['index_value']}): {why}", f"{fp_prefix}:matrix:{kind}:{pb['kind']}", wit)
            return None
        mappings.append(mapping)
        items.append((f"data vector handed to the linear solver = weighted stacked data of the datasets at that index",
                      z3.And([pl.eq_term(ctx, dat[r], pb["y"][r]) for r in range(len(pb["rows"]))]), f"{fp_prefix}:data"))
    rec.proved["matrix handed to the linear solver = scaled, weighted, reduced, stacked model matrix (column by column)"] = \
        rec.proved.get("matrix handed to the linear solver = scaled, weighted, reduced, stacked model matrix (column by column)", 0) + len(calls)
    # ---- penalties from the solver's clp symbols, by label
    full_clps = []
    for call, pb, mapping in zip(calls, problems, mappings):
        if pb["kind"] == "full":
            full_clps.append({})
            continue
        by_label = {lab: zreal(call["clp"][j]) for j, lab in enumerate(mapping)}
        full_clps.append(pl.spec_full_clps(pb, by_label, pv))
    pens = pl.spec_penalties(cfg, src, problems, pen_specs, full_clps, pv)
    expected = []
    for gname in pl.groups_of(cfg):
        for call, pb in zip(calls, problems):
            if pb["group"] == gname:
                expected += [zreal(x) for x in call["res"]]
        expected += pens.get(gname, [])
    got = [zreal(x) for x in np.asarray(pen, dtype=object).flat]
    if len(got) != len(expected):
        rec.unexpected(ctx, f"penalty vector has {len(got)} entries, specification {len(expected)}", f"{fp_prefix}:penalty-length", wit)
        return None
    items.append(("penalty vector = residuals of every problem in order, then the weighted equal-area penalties",
                  z3.And([a == b for a, b in zip(got, expected)]), f"{fp_prefix}:penalty-vector"))
    # each data symbol exactly once; groups independent (syntactic over recorded terms)
    seen = {}
    ok_once, ok_indep = True, True
    group_ds = {g: {d["label"] for d in dss} for g, dss in pl.groups_of(cfg).items()}
    for call, pb in zip(calls, problems):
        names = set()
        for x in list(call["data"].flat) + list(call["matrix"].flat):
            names |= set(core.free_vars(zreal(x)))
        for nm in names:
            parts = nm.split("_")
            if parts[0] == "D":
                seen[nm] = seen.get(nm, 0) + 1
            if parts[0] in ("D", "W") and parts[1] not in group_ds[pb["group"]]:
                ok_indep = False
            if parts[0] in ("M", "B", "C", "G") and parts[2] not in group_ds[pb["group"]]:
                ok_indep = False
    alld = {f"D_{d['label']}_{t}_{g}" for d in cfg["datasets"] for t in range(len(d["maxis"])) for g in range(len(d["gaxis"]))}
    ok_once = set(seen) == alld and all(v == 1 for v in seen.values())
    items.append(("every data point enters exactly one linear problem exactly once", z3.BoolVal(ok_once), f"{fp_prefix}:data-once"))
    items.append(("dataset groups contribute independently", z3.BoolVal(ok_indep), f"{fp_prefix}:group-independence"))
    rec.check_all(ctx, items, wit)
    return problems, mappings, pv, full_clps


def run_config(cfg, rec):
    import glotaran.optimization.matrix_provider as mp
    import glotaran.optimization.optimization_group as og
    import glotaran.optimization.optimizer as opt
    import glotaran.optimization.data_provider as dp
    import glotaran.optimization.estimation_provider as ep

    rec.encodes(opt.Optimizer.calculate_penalty, og.OptimizationGroup.__init__, og.OptimizationGroup.calculate,
                dp.DataProvider.__init__, dp.DataProviderLinked.__init__, dp.DataProviderLinked.align_data,
                dp.DataProviderLinked.align_weights, dp.DataProvider.add_model_weight,
                mp.MatrixProvider.calculate_dataset_matrix, mp.MatrixProvider.combine_megacomplex_matrices,
                mp.MatrixProvider.reduce_matrix, mp.MatrixProviderUnlinked.calculate_prepared_matrices,
                mp.MatrixProviderUnlinked.calculate_full_matrices, mp.MatrixProviderLinked.calculate_aligned_matrices,
                mp.MatrixProviderLinked.align_matrices, ep.EstimationProviderUnlinked.calculate_estimation,
                ep.EstimationProviderLinked.estimate, ep.EstimationProvider.retrieve_clps,
                ep.EstimationProvider.calculate_clp_penalties, ep._get_area)
    rec.assume_note("global/model coordinates and interval bounds are concrete (symbolic axes: C09, C08)")
    rec.assume_note("linear solver replaced by a recording functional stub (its optimality is C01)")
    from harness import pipeline as pl

    if pl.has_label_collision(cfg):
        rec.fp_override = "linked:dataset-label-concatenation-collision"
    for ctx, src, stubs, kind, out in symbolic_run(cfg, rec, after=evaluate_moved):
        rec.witness_path(ctx)
        wit = lambda mm: {"env": model_env(mm)}  # noqa: E731
        if kind == "exc":
            rec.unexpected(ctx, f"objective evaluation raised {type(out).__name__}: {out}", "objective:exception", wit)
            continue
        scheme, optimizer, pen, moved = out
        calls = ordered_calls(stubs)
        check_objective(cfg, rec, ctx, src, calls, pen)
        if moved is not None:
            # the same obligations at an arbitrary optimiser vector: every parameter the model uses (expressions included)
            # follows the vector handed to the objective
            labels_m, override, pen_m = moved
            check_objective(cfg, rec, ctx, src, ordered_calls(stubs, phase=1), pen_m, fp_prefix="objective:moved", pv_override=override)
        # encoding validation: recorded terms at a pseudo-random point vs the float pipeline
        env = DefaultEnv()
        expected = {"penalty_len": len(np.asarray(pen).flat)}
        for k, c in enumerate(calls):
            expected[f"m{k}"] = [core.evalf(zreal(x), env) for x in c["matrix"].flat]
            expected[f"y{k}"] = [core.evalf(zreal(x), env) for x in c["data"].flat]
        rec.validate("random-point", dict(env), expected)
        rec.want_sample() and rec.sample({"solver_calls": len(calls), "first_matrix_entry": str(zreal(calls[0]["matrix"].flat[0])) if calls else None,
                    "penalty_entries": len(np.asarray(pen).flat)})


class DefaultEnv(dict):
    """Environment that fills unknown symbols with deterministic pseudo-random values in (0.25, 2.75)."""

    salt = ""

    def __missing__(self, name):
        from harness import pipeline as pl

        s = pl.Source(self, self.salt)
        return s.get(name)


def salted(salt, base=None):
    e = DefaultEnv(base or {})
    e.salt = salt
    return e


def float_run(cfg, env):
    """Real float pipeline with spying (real) linear solvers. Returns (calls, penalty, optimizer, scheme)."""
    from harness import pipeline as pl
    from glotaran.optimization.optimizer import Optimizer

    with Patcher() as p:
        src = pl.Source(env, getattr(env, "salt", ""))
        stubs = pl.install(p, src)
        with warnings.catch_warnings():
            warnings.simplefilter("ignore")
            scheme = pl.build_scheme(cfg, src)
            opt = Optimizer(scheme, verbose=False)
            pen = opt.calculate_penalty()
        return ordered_calls(stubs), np.asarray(pen, dtype=float), opt, scheme


def concrete(cfg, env):
    calls, pen, _, _ = float_run(cfg, DefaultEnv(env))
    out = {"penalty_len": len(pen)}
    for k, c in enumerate(calls):
        out[f"m{k}"] = [float(x) for x in c["matrix"].flat]
        out[f"y{k}"] = [float(x) for x in c["data"].flat]
    return out


def expected_penalty_float(cfg, env, pv_override=None):
    """Independent float oracle: the specification evaluated with numpy + lstsq/nnls."""
    from scipy.optimize import nnls

    from harness import pipeline as pl

    src = pl.Source(env, getattr(env, "salt", ""))
    problems, pen_specs, pv = pl.spec_problems(cfg, src, pv_override)
    full_clps, residuals = [], []
    for pb in problems:
        M = np.array([[float(pb["cols"][lab][r]) for lab in pb["labels"]] for r in range(len(pb["rows"]))], dtype=float)
        M = M.reshape(len(pb["rows"]), len(pb["labels"]))
        y = np.array([float(v) for v in pb["y"]], dtype=float)
        if pb["fn"] == "variable_projection":
            c = np.linalg.lstsq(M, y, rcond=None)[0] if M.shape[1] else np.zeros(0)
        else:
            c = nnls(M, y)[0]
        residuals.append(y - M @ c)
        by_label = dict(zip(pb["labels"], c))
        full_clps.append(pl.spec_full_clps(pb, by_label, pv) if pb["kind"] == "index" else {})
    pens = pl.spec_penalties(cfg, src, problems, pen_specs, full_clps, pv)
    out = []
    for gname in pl.groups_of(cfg):
        for r, pb in zip(residuals, problems):
            if pb["group"] == gname:
                out += list(r)
        out += [float(v) for v in pens.get(gname, [])]
    return np.array(out, dtype=float)


def replay(data):
    """Generic points first (a polynomial identity that fails, fails almost everywhere), then the model's point."""
    last = (False, "float pipeline matches the independent specification")
    for env in (salted("r1"), salted("r2"), DefaultEnv(dict(data["env"]))):
        v, detail = _replay_at(data["cfg"], env)
        if v:
            return v, detail
        last = (v, detail)
    return last


def _replay_at(cfg, env):
    from harness import pipeline as pl

    try:
        calls, pen, _, _scheme = float_run(cfg, env)
    except Exception as ex:  # noqa: BLE001
        return True, f"objective evaluation raised {type(ex).__name__}: {ex} (config {cfg['name']})"
    want = expected_penalty_float(cfg, env)
    # the linear problems actually handed to the (real) solver vs the documented ones
    problems, _, _ = pl.spec_problems(cfg, pl.Source(env, getattr(env, "salt", "")))
    if len(calls) != len(problems):
        return True, f"config {cfg['name']}: {len(calls)} linear problems solved, documented objective has {len(problems)}"
    for k, (c, pb) in enumerate(zip(calls, problems)):
        M = np.array([[float(pb["cols"][lab][r]) for lab in pb["labels"]] for r in range(len(pb["rows"]))], dtype=float)
        M = M.reshape(len(pb["rows"]), len(pb["labels"]))
        y = np.array([float(v) for v in pb["y"]], dtype=float)
        got = np.asarray(c["matrix"], dtype=float)
        where = f"config {cfg['name']}: problem {k} (datasets {pb['ds']} at global index {pb['index_value']})"
        if got.shape != M.shape:
            return True, f"{where}: matrix handed to the linear solver has shape {got.shape}, documented {M.shape}"
        if not np.allclose(np.asarray(c["data"], dtype=float), y, rtol=1e-9, atol=1e-12):
            return True, f"{where}: data vector {np.asarray(c['data']).tolist()} != documented {y.tolist()}"
        unused = list(range(M.shape[1]))
        for j in range(got.shape[1]):
            hit = [u for u in unused if np.allclose(got[:, j], M[:, u], rtol=1e-9, atol=1e-12)]
            if not hit:
                return True, (f"{where}: column {j} of the matrix handed to the linear solver {got[:, j].tolist()} is none of "
                              f"the documented columns {dict(zip(pb['labels'], M.T.tolist()))}")
            unused.remove(hit[0])
    if len(pen) != len(want):
        return True, f"config {cfg['name']}: penalty vector has {len(pen)} entries, documented objective has {len(want)}"
    # a second optimizer on the same scheme objects must see the same problem (inputs are not consumed)
    try:
        from glotaran.optimization.optimizer import Optimizer as _Opt

        with warnings.catch_warnings():
            warnings.simplefilter("ignore")
            pen2 = np.asarray(_Opt(_scheme, verbose=False).calculate_penalty(), dtype=float)
        if len(pen2) != len(pen) or not np.allclose(pen2, pen, rtol=1e-9, atol=1e-12):
            worst = int(np.argmax(np.abs(pen2 - pen))) if len(pen2) == len(pen) else -1
            return True, (f"config {cfg['name']}: a second Optimizer on the same scheme gives a different penalty vector "
                          f"(entry {worst}: {pen[worst]!r} then {pen2[worst]!r}) - the first evaluation changed its inputs")
    except Exception as ex:  # noqa: BLE001
        return True, f"config {cfg['name']}: second Optimizer on the same scheme raised {type(ex).__name__}: {ex}"
    bad = [i for i in range(len(pen)) if not abs(pen[i] - want[i]) <= 1e-7 * max(1.0, abs(want[i]))]
    if bad:
        i = bad[0]
        return True, (f"config {cfg['name']}: penalty entry {i} is {pen[i]!r}, documented objective gives {want[i]!r} "
                      f"({len(bad)} of {len(pen)} entries differ)")
    return _replay_moved(cfg, env)


def _replay_moved(cfg, env):
    """The objective at another optimiser vector (as the optimiser evaluates it) against the specification at those values."""
    import math

    from harness import pipeline as pl
    from glotaran.optimization.optimizer import Optimizer

    try:
        with Patcher() as p:
            src = pl.Source(env, getattr(env, "salt", ""))
            pl.install(p, src)
            with warnings.catch_warnings():
                warnings.simplefilter("ignore")
                scheme = pl.build_scheme(cfg, src)
                opt = Optimizer(scheme, verbose=False)
                labels, x0, lb, ub = opt._parameters.get_label_value_and_bounds_arrays(exclude_non_vary=True)
                if not list(labels):
                    return False, "float pipeline matches the independent specification"
                opt._free_parameter_labels = list(labels)
                opt.calculate_penalty()
                x = np.minimum(np.maximum(np.asarray(x0, dtype=float) * 1.07 + 0.03, lb), ub)
                pen = np.asarray(opt.objective_function(x), dtype=float)
    except Exception as ex:  # noqa: BLE001
        return True, f"objective at a second parameter vector raised {type(ex).__name__}: {ex} (config {cfg['name']})"
    override = {lab: (math.exp(x[k]) if scheme.parameters.get(lab).non_negative else float(x[k])) for k, lab in enumerate(labels)}
    want = expected_penalty_float(cfg, env, override)
    if len(pen) != len(want):
        return True, f"config {cfg['name']}: penalty at a second parameter vector has {len(pen)} entries, documented {len(want)}"
    bad = [i for i in range(len(pen)) if not abs(pen[i] - want[i]) <= 1e-7 * max(1.0, abs(want[i]))]
    if bad:
        i = bad[0]
        return True, (f"config {cfg['name']}: objective at the optimiser vector {dict(zip(labels, x.tolist()))}: penalty entry {i} is "
                      f"{pen[i]!r}, the documented objective at those parameter values gives {want[i]!r} ({len(bad)} of {len(pen)} differ)")
    return False, "float pipeline matches the independent specification (also at a second parameter vector)"
