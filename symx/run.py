"""symx runner: configurations in parallel, obligations, replay, known findings, evidence."""
from __future__ import annotations

import hashlib
import inspect
import json
import math
import multiprocessing as mp
import os
import sys
import time
import traceback

import z3

from symx import core

VERIF = os.path.dirname(os.path.dirname(os.path.abspath(__file__)))
EXIT_OK, EXIT_VIOLATION, EXIT_HARNESS = 0, 1, 3
MAX_REPLAYS_PER_FP = 2


class Rec:
    """Per-configuration recorder handed to a harness's run_config."""

    def __init__(self, cfg):
        self.cfg = cfg
        self.stats = core.Stats()
        self.obligations = 0
        self.candidates = []  # (fingerprint, message, replay-data)
        self.inconclusive = []
        self.samples = []
        self.validations = []  # (label, env, expected dict)
        self.vacuous = 0
        self.witnessed = 0
        self.shims = []
        self.assumptions = set()
        self.functions = set()
        self.errors = []
        self._fp_count = {}
        self.proved = {}
        self.unconfirmed = 0
        self.fast = 0  # obligations closed by z3's simplifier normal form + congruence (no search needed)
        self.fp_override = None  # set by a harness when the whole configuration is one known failing input class

    # ---- bookkeeping helpers
    def assume_note(self, text):
        self.assumptions.add(text)

    def encodes(self, *fns):
        for f in fns:
            f = getattr(f, "py_func", f)
            f = getattr(f, "__func__", f)
            try:
                src = inspect.getsource(f)
                h = hashlib.sha1(src.encode()).hexdigest()[:10]
            except (OSError, TypeError):
                h = "nosrc"
            self.functions.add(f"{getattr(f, '__module__', '?')}.{getattr(f, '__qualname__', repr(f))}@{h}")

    def want_sample(self):
        return len(self.samples) < 3

    def sample(self, obj):
        if len(self.samples) < 3:
            self.samples.append(obj)
        return True

    def each(self, items, fn):
        """Run fn(item) for the items of a batch: a path cap or a lost encoding in one item does not hide the others."""
        first = None
        for it in items:
            if self.stats.stop:
                break
            try:
                fn(it)
            except core.PathCap as ex:
                self.inconclusive.append(f"{it.get('name')}: path cap: {ex}")
            except (KeyboardInterrupt, SystemExit):
                raise
            except BaseException as ex:  # noqa: BLE001 - engine exceptions are BaseException
                core.Ctx.cur = None
                if first is None:
                    first = ex
        if first is not None:
            raise first

    # ---- deciding
    def check(self, ctx, name, goal, fingerprint=None, witness=None, extra=(), timeout_ms=None):
        """One obligation: pc ∧ assumptions ⇒ goal.  Returns True iff unsat (proved on this path)."""
        self.obligations += 1
        g = getattr(goal, "e", goal)
        if isinstance(g, z3.ExprRef) and core.fast_valid(g, ctx.implied):
            self.fast += 1
            self.proved[name] = self.proved.get(name, 0) + 1
            return True
        r, m = ctx.prove(goal, extra=extra, **({"timeout_ms": timeout_ms} if timeout_ms else {}))
        if r == "unsat":
            self.proved[name] = self.proved.get(name, 0) + 1
            return True
        if r == "unknown":
            self.inconclusive.append(f"{self.cfg.get('name')}: {name}: solver unknown")
            if len(self.inconclusive) >= 3:
                self.stats.stop = True  # the configuration is undecided already; the float oracle of the harness decides 1 vs 3
            return False
        fp = self.fp_override or fingerprint or name
        n = self._fp_count.get(fp, 0)
        self._fp_count[fp] = n + 1
        if n < MAX_REPLAYS_PER_FP:
            data = witness(m) if witness else {"model": model_env(m)}
            self.candidates.append((fp, name, data))
        if len(self.candidates) >= 6 or sum(self._fp_count.values()) >= 40:
            self.stats.stop = True
        return False

    def check_all(self, ctx, items, witness=None, extra=()):
        """Several obligations of one path: decided together first, one by one only if that fails.

        items: list of (name, goal, fingerprint).  Returns True iff all were proved.
        """
        items = [(n, getattr(g, "e", g), fp) for n, g, fp in items]
        rest = []
        for n, g, fp in items:
            if isinstance(g, z3.ExprRef) and core.fast_valid(g, ctx.implied):
                self.obligations += 1
                self.fast += 1
                self.proved[n] = self.proved.get(n, 0) + 1
            else:
                rest.append((n, g, fp))
        items = rest
        if not items:
            return True
        if len(items) > 3:
            r, _ = ctx.prove(z3.And([g if not isinstance(g, bool) else z3.BoolVal(g) for _, g, _ in items]), extra=extra)
            if r == "unsat":
                self.obligations += len(items)
                for n, _, _ in items:
                    self.proved[n] = self.proved.get(n, 0) + 1
                return True
        ok = True
        for n, g, fp in items:
            ok = self.check(ctx, n, g, fp, witness, extra) and ok
        return ok

    def unexpected(self, ctx, name, fingerprint, witness=None):
        """A path outcome that is itself a violation (e.g. unexpected exception); needs pc model."""
        return self.check(ctx, name, z3.BoolVal(False), fingerprint, witness)

    def witness_path(self, ctx):
        """Vacuity guard: the path condition with all assumptions must be satisfiable."""
        m = ctx.model()
        if m is None:
            if getattr(ctx, "last_model_status", "") == "unsat":
                self.vacuous += 1
            else:
                self.unconfirmed += 1  # every branch decision was checked feasible; only the final witness timed out
        else:
            self.witnessed += 1
        return m

    def validate(self, label, env, expected):
        """Queue an encoding validation: real float code at env must give expected (floats)."""
        if len(self.validations) < self.cfg.get("max_validations", 6):
            self.validations.append((label, env, expected))

    def result(self):
        return {
            "name": self.cfg.get("name"),
            "stats": self.stats,
            "obligations": self.obligations,
            "proved": self.proved,
            "inconclusive": self.inconclusive,
            "samples": self.samples,
            "vacuous": self.vacuous,
            "witnessed": self.witnessed,
            "shims": self.shims,
            "assumptions": sorted(self.assumptions),
            "functions": sorted(self.functions),
            "errors": self.errors,
            "fast": self.fast,
            "unconfirmed": self.unconfirmed,
        }


def model_env(m, completion_vars=()):
    """Float environment (name -> float) of the real constants in a z3 model."""
    env = {}
    for d in m.decls():
        if d.arity() == 0:
            v = m[d]
            try:
                env[d.name()] = core.z3_to_float(v)
            except Exception:  # noqa: BLE001
                pass
    for v in completion_vars:
        name = v.decl().name()
        if name not in env:
            env[name] = core.model_value(m, v)
    return env


def close(a, b, rtol=1e-7, atol=1e-9):
    if isinstance(a, (list, tuple)):
        return len(a) == len(b) and all(close(x, y, rtol, atol) for x, y in zip(a, b))
    if isinstance(a, str) or isinstance(b, str) or a is None or b is None:
        return a == b
    if isinstance(a, bool) or isinstance(b, bool):
        return bool(a) == bool(b)
    a, b = float(a), float(b)
    if math.isnan(a) and math.isnan(b):
        return True
    return abs(a - b) <= atol + rtol * max(abs(a), abs(b))


def _worker(args):
    modname, cfg, tier, seed = args
    import importlib

    t0 = time.time()
    mod = importlib.import_module(modname)
    rec = Rec(cfg)
    out = {"name": cfg.get("name"), "violations": [], "nonrepro": [], "validated": 0, "validation_failures": []}
    encoding_lost = None
    try:
        mod.run_config(cfg, rec)
    except core.PathCap as ex:
        rec.inconclusive.append(f"{cfg.get('name')}: path cap: {ex}")
    except BaseException as ex:  # noqa: BLE001
        encoding_lost = f"{cfg.get('name')}: {type(ex).__name__}: {ex}\n{traceback.format_exc(limit=8)}"
    core.Ctx.cur = None
    # Float self-check of the configuration with the harness's own replay oracle (the untouched float code at generic
    # points).  It is what confirms solver counterexamples; run unconditionally it also catches changes that only
    # exist in floating point / dtype handling, and tells a real defect from a lost encoding.
    if getattr(mod, "FLOAT_SELFCHECK", False) or encoding_lost:
        try:
            violated, detail = mod.replay({"cfg": cfg, "env": {}})
        except Exception as ex:  # noqa: BLE001
            violated, detail = None, f"{type(ex).__name__}: {ex}"
        if violated:
            rec.candidates.append((rec.fp_override or ("float-oracle:" + str(cfg.get("kind", "config"))),
                                   "float self-check of the configuration", {"env": {}}))
        elif encoding_lost:
            rec.errors.append(encoding_lost)
    elif encoding_lost:
        rec.errors.append(encoding_lost)
    # ---- everything below runs on the untouched float code (patches restored by run_config)
    core.Ctx.cur = None
    for label, env, expected in rec.validations:
        try:
            got = mod.concrete(cfg, env)
            bad = [k for k in expected if k not in got or not close(expected[k], got[k])]
            if bad:
                out["validation_failures"].append(
                    f"{cfg.get('name')}/{label}: encoding and float code disagree on {bad[:4]}: "
                    f"expected {[expected[k] for k in bad[:4]]} got {[got.get(k) for k in bad[:4]]} env={env}"
                )
            else:
                out["validated"] += 1
        except Exception as ex:  # noqa: BLE001
            out["validation_failures"].append(f"{cfg.get('name')}/{label}: {type(ex).__name__}: {ex}")
    for fp, name, data in rec.candidates:
        try:
            violated, detail = mod.replay(dict(data, cfg=cfg))
        except Exception as ex:  # noqa: BLE001
            violated, detail = None, f"replay raised {type(ex).__name__}: {ex}\n{traceback.format_exc(limit=6)}"
        entry = {"fingerprint": fp, "obligation": name, "data": dict(data, cfg=cfg), "detail": detail}
        (out["violations"] if violated else out["nonrepro"]).append(entry)
    res = rec.result()
    res["stats"] = rec.stats.as_dict()
    res["denominators"] = sorted(rec.stats.denominators)[:5]
    out.update(res)
    out["wall_s"] = round(time.time() - t0, 2)
    return out


def _dead_result(cfg, why):
    return {"name": cfg.get("name"), "violations": [], "nonrepro": [], "validated": 0, "validation_failures": [],
            "stats": core.Stats().as_dict(), "obligations": 0, "proved": {}, "inconclusive": [], "samples": [], "vacuous": 0,
            "witnessed": 0, "shims": [], "assumptions": [], "functions": [], "errors": [f"{cfg.get('name')}: {why}"], "fast": 0,
            "unconfirmed": 0, "denominators": [], "wall_s": 0.0}


def _child(conn, a):
    try:
        conn.send(_worker(a))
    except BaseException as ex:  # noqa: BLE001
        try:
            conn.send(_dead_result(a[1], f"worker raised {type(ex).__name__}: {ex}"))
        except Exception:  # noqa: BLE001
            pass
    finally:
        conn.close()
        os._exit(0)


def run_isolated(args, procs, limit_s):
    """One forked process per configuration, at most ``procs`` at a time.  A process that dies (signal, native crash) or
    overruns ``limit_s`` yields a harness-error result for its configuration instead of hanging the check (a multiprocessing
    Pool waits forever for the result of a worker that was killed)."""
    import multiprocessing.connection as mpc

    ctxm = mp.get_context("fork")
    results = [None] * len(args)
    todo = list(range(len(args)))
    running = {}  # index -> (process, connection, start time)
    while todo or running:
        while todo and len(running) < procs:
            i = todo.pop(0)
            rcv, snd = ctxm.Pipe(duplex=False)
            pr = ctxm.Process(target=_child, args=(snd, args[i]))
            pr.start()
            snd.close()
            running[i] = (pr, rcv, time.time())
        waitables = [rcv for (_, rcv, _) in running.values()] + [pr.sentinel for (pr, _, _) in running.values()]
        mpc.wait(waitables, timeout=5.0)
        for i in list(running):
            pr, rcv, t_start = running[i]
            got = None
            if rcv.poll():
                try:
                    got = rcv.recv()
                except (EOFError, OSError):
                    got = None
                if got is None and pr.is_alive():
                    continue
            if got is not None:
                results[i] = got
            elif not pr.is_alive():
                results[i] = _dead_result(args[i][1], f"worker process died (exit code {pr.exitcode}) - native crash or kill")
            elif time.time() - t_start > limit_s:
                pr.kill()
                results[i] = _dead_result(args[i][1], f"configuration exceeded the wall-clock limit of {limit_s:.0f} s")
            else:
                continue
            rcv.close()
            pr.join(timeout=5)
            if pr.is_alive():
                pr.kill()
            del running[i]
    return results


def load_known():
    path = os.path.join(VERIF, "known_findings.json")
    if not os.path.exists(path):
        return []
    with open(path) as f:
        return json.load(f).get("findings", [])


def run_check(pid, modname, tier, seed, level_note_assumptions=(), procs=None):
    import importlib

    t0 = time.time()
    mod = importlib.import_module(modname)
    if hasattr(mod, "preload"):
        mod.preload()
    cfgs = mod.configs(tier, seed)
    procs = procs or min(int(os.environ.get("VERIF_PROCS", "16")), max(1, len(cfgs)))
    args = [(modname, c, tier, seed) for c in cfgs]
    if procs == 1 or os.environ.get("VERIF_SERIAL"):
        results = [_worker(a) for a in args]
    else:
        results = run_isolated(args, procs, float(os.environ.get("VERIF_CONFIG_LIMIT_S", "1200" if tier == "quick" else "3000")))
    return finish(pid, mod, tier, seed, cfgs, results, t0, level_note_assumptions)


def finish(pid, mod, tier, seed, cfgs, results, t0, extra_assumptions=()):
    known = [k for k in load_known() if k.get("property") == pid]
    known_fp = {k["fingerprint"]: k for k in known if k.get("status") == "known"}
    total = core.Stats()
    agg = {"paths": 0, "branch_queries": 0, "unsat": 0, "sat": 0, "unknown": 0, "solver_s": 0.0}
    obligations = validated = vacuous = witnessed = fast = unconfirmed = 0
    violations, nonrepro, inconclusive, errors, valfail = [], [], [], [], []
    samples, functions, shims, assumptions, per_cfg, proved = [], set(), set(), set(extra_assumptions), [], {}
    denoms = 0
    for r in results:
        st = r["stats"]
        agg["paths"] += st["paths"]
        agg["branch_queries"] += st["branch_queries"]
        for k in ("unsat", "sat", "unknown"):
            agg[k] += st["prove"][k]
        agg["solver_s"] += st["solver_s"]
        denoms += st["denominators_assumed_nonzero"]
        obligations += r["obligations"]
        fast += r.get("fast", 0)
        unconfirmed += r.get("unconfirmed", 0)
        validated += r["validated"]
        vacuous += r["vacuous"]
        witnessed += r["witnessed"]
        violations += r["violations"]
        nonrepro += r["nonrepro"]
        inconclusive += r["inconclusive"]
        errors += r["errors"]
        valfail += r["validation_failures"]
        for k, v in r["proved"].items():
            proved[k] = proved.get(k, 0) + v
        if r["samples"] and len(samples) < 6:
            samples.append({"config": r["name"], "sample": r["samples"][0]})
        functions |= set(r["functions"])
        shims |= set(r["shims"])
        assumptions |= set(r["assumptions"])
        per_cfg.append(
            {"config": r["name"], "paths": st["paths"], "obligations": r["obligations"],
             "unsat": st["prove"]["unsat"], "sat": st["prove"]["sat"], "unknown": st["prove"]["unknown"],
             "wall_s": r["wall_s"]}
        )
        if st["paths"] == 0 and not r["errors"]:
            errors.append(f"{r['name']}: 0 feasible paths (vacuous configuration)")
    if vacuous:
        errors.append(f"{vacuous} paths with unsatisfiable path condition + assumptions (vacuity guard)")

    # ---- triage of replayed violations against the committed known-findings file
    new, known_hit = [], {}
    for v in violations:
        if v["fingerprint"] in known_fp:
            known_hit.setdefault(v["fingerprint"], v)
        else:
            new.append(v)
    os.makedirs(os.path.join(VERIF, "replays"), exist_ok=True)
    lines = []
    for fp, v in known_hit.items():
        lines.append(f"KNOWN-FINDING: property={pid} {fp}: {known_fp[fp].get('what', '')}")
    seen = set()
    for v in new:
        if v["fingerprint"] in seen:
            continue
        seen.add(v["fingerprint"])
        h = hashlib.sha1(json.dumps(v["data"], sort_keys=True, default=str).encode()).hexdigest()[:10]
        path = os.path.join(VERIF, "replays", f"{pid}_{h}.json")
        with open(path, "w") as f:
            json.dump({"property": pid, "module": mod.__name__, "fingerprint": v["fingerprint"],
                       "obligation": v["obligation"], "detail": v["detail"], "data": v["data"]},
                      f, indent=1, default=str)
        lines.append(f"VIOLATION property={pid} replay={path}")
        lines.append(f"  fingerprint={v['fingerprint']} :: {v['detail']}")
    harness_err = bool(errors or nonrepro or valfail)
    wall = round(time.time() - t0, 2)
    transitions = agg["branch_queries"] + agg["unsat"] + agg["sat"] + agg["unknown"] + fast
    evidence = {
        "property_id": pid,
        "tier": tier,
        "seed": int(seed),
        "level": "model_checking",
        "coverage": {
            "states": agg["paths"],
            "transitions": transitions,
            "traces_validated_against_impl": validated,
            "samples": samples or [{"note": "no sample recorded"}],
            "explanation": (
                "states = feasible control paths of the real functions executed on z3 terms; "
                "transitions = z3 decisions: branch feasibility queries + obligation queries + obligations closed by the "
                "simplifier normal form with congruence (split in coverage.queries / obligations_closed_by_normal_form); "
                "traces_validated = path models re-run through the untouched float code and compared "
                "with the symbolic output terms"
            ),
            "configurations": len(cfgs),
            "obligations": obligations,
            "queries": {"branch_feasibility": agg["branch_queries"], "obligation_unsat": agg["unsat"],
                        "obligation_sat": agg["sat"], "obligation_unknown": agg["unknown"]},
            "obligations_closed_by_normal_form": fast,
            "obligations_proved_by_name": proved,
            "solver_time_s": round(agg["solver_s"], 2),
            "paths_with_satisfiable_pc": witnessed,
            "paths_whose_final_witness_query_timed_out": unconfirmed,
            "functions_encoded": sorted(functions),
            "shims_and_stubs": sorted(shims),
            "bounds": getattr(mod, "BOUNDS", {}).get(tier, ""),
            "outside_claim": getattr(mod, "OUTSIDE", ""),
            "per_configuration": per_cfg[:60],
            "inconclusive": inconclusive[:40],
            "known_findings_hit": sorted(known_hit),
            "replayed_violations": len(violations),
            "non_reproducing_counterexamples": [n["detail"] for n in nonrepro][:10],
            "harness_errors": errors[:10],
            "validation_failures": valfail[:10],
            "denominators_assumed_nonzero": denoms,
            "exhaustive": False,
        },
        "assumptions": sorted(assumptions) + [
            "exact real arithmetic (floating-point rounding, overflow, NaN propagation outside the claim)",
            "every symbolic denominator is assumed non-zero (count in coverage.denominators_assumed_nonzero)",
        ],
        "wall_s": wall,
        "violations": len(new),
    }
    os.makedirs(os.path.join(VERIF, "evidence"), exist_ok=True)
    with open(os.path.join(VERIF, "evidence", f"{pid}.json"), "w") as f:
        json.dump(evidence, f, indent=1, default=str)
    for ln in lines:
        print(ln)
    print(
        f"[{pid}/{tier}] configs={len(cfgs)} paths={agg['paths']} obligations={obligations} "
        f"unsat={agg['unsat']} sat={agg['sat']} unknown={agg['unknown']} validated={validated} "
        f"inconclusive={len(inconclusive)} known={len(known_hit)} new_violations={len(seen)} wall={wall}s"
    )
    for e in (errors + valfail)[:10]:
        print("HARNESS-ERROR:", e, file=sys.stderr)
    for n in nonrepro[:10]:
        print("NON-REPRODUCING:", n["fingerprint"], n["detail"], file=sys.stderr)
    for i in inconclusive[:10]:
        print("INCONCLUSIVE:", i, file=sys.stderr)
    if seen:
        return EXIT_VIOLATION
    if harness_err:
        return EXIT_HARNESS
    return EXIT_OK
