"""Entry point: python -m symx.main <property-id> [--tier quick|thorough] [--replay file]."""
from __future__ import annotations

import argparse
import importlib
import json
import os
import pkgutil
import sys


def harness_module(pid):
    import harness

    for m in pkgutil.iter_modules(harness.__path__):
        if m.name.lower().startswith(pid.lower() + "_"):
            return f"harness.{m.name}"
    raise SystemExit(f"no harness for {pid}")


def main():
    ap = argparse.ArgumentParser()
    ap.add_argument("pid")
    ap.add_argument("--tier", default=os.environ.get("VERIF_TIER", "quick"))
    ap.add_argument("--replay")
    a = ap.parse_args()
    seed = int(os.environ.get("VERIF_SEED", "0"))
    if a.replay:
        with open(a.replay) as f:
            d = json.load(f)
        mod = importlib.import_module(d["module"])
        violated, detail = mod.replay(d["data"])
        print(("VIOLATION reproduced: " if violated else "not reproduced: ") + str(detail))
        sys.exit(1 if violated else 0)
    from symx import run

    modname = harness_module(a.pid)
    sys.exit(run.run_check(a.pid.upper(), modname, a.tier, seed))


if __name__ == "__main__":
    main()
