"""C15 - failures during optimisation are contained and reported."""
from __future__ import annotations

import sys
import warnings

import numpy as np
import z3

from harness import c02_objective as c02
from harness import c10_purity as c10
from harness import c13_statistics as c13
from harness import optim
from symx import core
from symx.env import Patcher
from symx.run import model_env
from symx.values import SymReal
from symx.values import zreal

BOUNDS = {
    "quick": "fault position k symbolic in 1..K+1 with K = 3 evaluations at arbitrary points (k = K+1: no fault), "
    "raise_exception x verbose in {False, True}^2, 2 schemes; 5 kinds of invalid scheme",
    "thorough": "K = 5, 4 schemes",
}
OUTSIDE = ("non-finite matrices instead of exceptions (scipy's own reaction to non-finite residuals is not modelled); "
           "faults inside create_result itself; real scipy evaluation schedules beyond K points")

FLOAT_SELFCHECK = True


def preload():
    c02.preload()
    import glotaran.optimization.optimize  # noqa: F401
    import glotaran.project.result  # noqa: F401


def _schemes(tier):
    A4, G2 = [0.0, 1.0, 2.0, 3.5], [1.0, 2.0]
    out = [
        {"name": "par-single", "mcs": {"m1": {"labels": ["s1", "s2"], "pars": ["k1", "k2"]}},
         "datasets": [{"label": "d1", "mc": ["m1"], "maxis": A4, "gaxis": G2, "scale": "sc1"}]},
        {"name": "par-linked-penalty", "mcs": {"m1": {"labels": ["s1", "s2"], "pars": ["k1", "k2"]}},
         "datasets": [{"label": "d1", "mc": ["m1"], "maxis": A4, "gaxis": [1.0, 2.0]},
                      {"label": "d2", "mc": ["m1"], "maxis": A4, "gaxis": [2.0, 3.0], "weight": True}],
         "penalties": [{"source": "s1", "source_intervals": [[1.0, 2.0]], "target": "s2", "target_intervals": [[2.0, 3.0]],
                        "parameter": "pen1"}], "param_options": {"pen1": {"vary": False}}},
    ]
    out.append({"name": "par-gm-weight", "mcs": {"m1": {"labels": ["s1", "s2"], "pars": ["k1", "k2"]}},
                "datasets": [{"label": "d1", "mc": ["m1"], "maxis": A4, "gaxis": G2, "weight": True, "order": "gm"}]})
    if tier == "thorough":
        out += [
            {"name": "par-two-groups", "mcs": {"m1": {"labels": ["s1", "s2"], "pars": ["k1", "k2"]}},
             "datasets": [{"label": "d1", "mc": ["m1"], "maxis": A4, "gaxis": G2},
                          {"label": "d2", "mc": ["m1"], "maxis": A4, "gaxis": G2, "group": "g2"}],
             "groups": {"g2": {"link_clp": False}}},
            {"name": "par-nonneg", "mcs": {"m1": {"labels": ["s1", "s2"], "pars": ["k1", "k2"]}},
             "datasets": [{"label": "d1", "mc": ["m1"], "maxis": A4, "gaxis": G2}],
             "param_options": {"k1": {"non-negative": True}}},
        ]
    return out


def configs(tier, seed):
    out = []
    K = 3 if tier == "quick" else 5
    for sc in _schemes(tier):
        for raise_exception in (False, True):
            for verbose in (False, True):
                out.append(dict(sc, name=f"fault-{sc['name']}-raise{int(raise_exception)}-verbose{int(verbose)}", kind="fault",
                                K=K, raise_exception=raise_exception, verbose=verbose))
    for inv in ("missing-data", "unknown-method", "unknown-residual-function", "parameters-none", "missing-parameter"):
        out.append(dict(_schemes("quick")[0], name=f"invalid-{inv}", kind="invalid", invalid=inv))
    return out


class _FaultingLS(optim.AdversarialLeastSquares):
    """Adversarial optimiser that arms the model fault at evaluation number ``fault_at`` (1-based)."""

    def __init__(self, ctx, K, fault_at, state, **kw):
        super().__init__(ctx, K=K, **kw)
        self.fault_at = fault_at
        self.state = state

    def __call__(self, fun, x0, **kw):
        n = [0]

        def wrapped(x):
            n[0] += 1
            self.state["armed"] = n[0] == self.fault_at
            try:
                return fun(x)
            finally:
                self.state["armed"] = False

        return super().__call__(wrapped, x0, **kw)


def _run_fault(cfg, rec):
    from harness import pipeline as pl
    from glotaran.optimization.optimizer import InitialParameterError
    from glotaran.optimization.optimizer import Optimizer

    K = cfg["K"]
    with Patcher() as p:
        src = pl.Source(None)
        stubs = pl.install(p, src)
        rec.shims += p.record
        state = {"armed": False, "fault": None}

        def hook(mc, dm):
            if state["armed"]:
                raise state["fault"]

        def fn(ctx):
            for s in stubs.values():
                s.calls.clear()
                s.cache.clear()
            k = ctx.choose(K + 1, "fault_at") + 1  # 1..K+1 ; K+1 = no fault
            # the class of the exception the model raises is arbitrary too (a few representative classes)
            fc = ctx.choose(optim.N_FAULT_CLASSES if cfg.get("fault_classes", True) and k <= K else 1, "fault_class")
            state["fault"] = optim.fault_instance(fc)
            ls = _FaultingLS(ctx, K, k, state)
            svd = optim.SvdStub(ctx, well_conditioned=True)
            pl.FAULT_HOOK["hook"] = hook
            out = {"k": k, "ls": ls, "fault": state["fault"]}
            stdout_before = sys.stdout
            try:
                with Patcher() as p2, warnings.catch_warnings():
                    warnings.simplefilter("ignore")
                    optim.install_optimizer_stubs(p2, ctx, src, ls, svd)
                    scheme = pl.build_scheme(cfg, src)
                    c13.assume_parameter_domains(ctx, cfg, scheme)
                    out["snap0"] = c10.snapshot(scheme)
                    out["scheme"] = scheme
                    opt = Optimizer(scheme, verbose=cfg["verbose"], raise_exception=cfg["raise_exception"])
                    try:
                        opt.optimize()
                        out["optimize_exc"] = None
                    except Exception as ex:  # noqa: BLE001
                        out["optimize_exc"] = ex
                    out["stdout_after_optimize"] = sys.stdout is stdout_before
                    out["calls_before_result"] = len(c02.ordered_calls(stubs))
                    if out["optimize_exc"] is None:
                        try:
                            out["result"] = opt.create_result()
                            out["result_exc"] = None
                        except Exception as ex:  # noqa: BLE001
                            out["result"] = None
                            out["result_exc"] = ex
                    out["stdout_after"] = sys.stdout is stdout_before
                    out["snap1"] = c10.snapshot(scheme)
                    out["calls"] = list(c02.ordered_calls(stubs))
            finally:
                pl.FAULT_HOOK.pop("hook", None)
                sys.stdout = stdout_before
            return out

        for ctx, (kind, out) in core.explore(fn, rec.stats, max_paths=300):
            rec.witness_path(ctx)
            wit = lambda mm: {"env": model_env(mm)}  # noqa: E731
            if kind == "exc":
                rec.unexpected(ctx, f"harness run raised {type(out).__name__}: {out}", "fault:exception", wit)
                continue
            k, ls, fault = out["k"], out["ls"], out["fault"]
            items = [("sys.stdout is restored", z3.BoolVal(out["stdout_after_optimize"] and out["stdout_after"]), "fault:stdout-not-restored"),
                     ("the caller's scheme is untouched", z3.BoolVal(not c10.diff_snapshots(out["snap0"], out["snap1"])), "fault:scheme-modified")]
            faulted = k <= K
            if cfg["raise_exception"] and faulted:
                items.append(("raise_exception=True lets the original exception propagate unchanged",
                              z3.BoolVal(out["optimize_exc"] is fault), "fault:exception-not-propagated"))
            else:
                items.append(("optimize() itself does not raise", z3.BoolVal(out["optimize_exc"] is None), "fault:optimize-raised"))
                res, rexc = out.get("result"), out.get("result_exc")
                if faulted and k == 1:
                    items.append(("InitialParameterError when not even the initial parameters could be evaluated",
                                  z3.BoolVal(isinstance(rexc, InitialParameterError)), "fault:no-initial-parameter-error"))
                elif faulted:
                    ok_struct = res is not None and res.success is False and "injected model fault #42" in str(res.termination_reason)
                    items.append(("Result with success False whose termination_reason carries the error", z3.BoolVal(bool(ok_struct)),
                                  "fault:not-reported"))
                    if res is not None:
                        good = ls.evals  # evaluations that completed (x, f)
                        free = list(res.free_parameter_labels)
                        alts = []
                        for x, _f in good:
                            eqs = []
                            for j, lab in enumerate(free):
                                pj = res.optimized_parameters.get(lab)
                                if pj.non_negative:  # to the documented 1e-10 guard of the log transformation at value 1
                                    want = ctx.uf("exp", zreal(x[j]))
                                    dv = zreal(pj.value) - want
                                    eqs.append(z3.And(dv <= z3.Q(1, 10**9) * want, -dv <= z3.Q(1, 10**9) * want))
                                else:
                                    eqs.append(zreal(pj.value) == zreal(x[j]))
                            alts.append(z3.And(eqs))
                        items.append(("reported parameters equal a parameter set that was evaluated without error",
                                      z3.Or(alts) if alts else z3.BoolVal(False), "fault:parameters-not-from-good-evaluation"))
                        # datasets come from the same parameters: the final calculation's linear problems are those of a good evaluation
                        per_eval = out["calls_before_result"]
                        n_per = per_eval // max(1, len(good)) if good else 0
                        final = out["calls"][-n_per:] if n_per else []
                        good_kids = [{c["kid"] for c in out["calls"][i * n_per : (i + 1) * n_per]} for i in range(len(good))]
                        fk = {c["kid"] for c in final}
                        if not any(p_.non_negative for p_ in out["scheme"].parameters.all()):
                            items.append(("result datasets are computed from those same parameters",
                                          z3.BoolVal(bool(final) and any(fk == g for g in good_kids)), "fault:datasets-from-other-parameters"))
                        fixed_ok = all(
                            c10._eqv(res.optimized_parameters.get(p_.label).value, p_.value)
                            for p_ in out["scheme"].parameters.all() if not p_.vary and p_.expression is None
                        )
                        items.append(("fixed parameters unchanged in the failure result", z3.BoolVal(fixed_ok), "fault:fixed-changed"))
                else:
                    items.append(("without a fault the result is successful", z3.BoolVal(res is not None and res.success is True),
                                  "fault:spurious-failure"))
            rec.check_all(ctx, items, wit)
            rec.want_sample() and rec.sample({"fault_at_evaluation": k if faulted else None, "raise_exception": cfg["raise_exception"],
                        "outcome": type(out.get("result_exc") or out.get("optimize_exc") or out.get("result")).__name__})
            rec.validate("fault", {"k": k}, {"ok": True})


def _run_invalid(cfg, rec):
    from harness import pipeline as pl
    from glotaran.optimization.estimation_provider import UnsupportedResidualFunctionError
    from glotaran.optimization.optimize import optimize
    from glotaran.optimization.optimizer import MissingDatasetsError
    from glotaran.optimization.optimizer import ParameterNotInitializedError
    from glotaran.optimization.optimizer import UnsupportedMethodError
    from glotaran.parameter.parameters import ParameterNotFoundException

    want = {"missing-data": MissingDatasetsError, "unknown-method": UnsupportedMethodError,
            "unknown-residual-function": UnsupportedResidualFunctionError, "parameters-none": ParameterNotInitializedError,
            "missing-parameter": ParameterNotFoundException}[cfg["invalid"]]
    with Patcher() as p:
        src = pl.Source(None)
        stubs = pl.install(p, src)
        rec.shims += p.record
        evaluated = []

        def hook(mc, dm):
            evaluated.append(1)

        def fn(ctx):
            evaluated.clear()
            for s in stubs.values():
                s.calls.clear()
            ls = optim.AdversarialLeastSquares(ctx, K=2)
            pl.FAULT_HOOK["hook"] = hook
            try:
                with Patcher() as p2, warnings.catch_warnings():
                    warnings.simplefilter("ignore")
                    optim.install_optimizer_stubs(p2, ctx, src, ls, optim.SvdStub(ctx, well_conditioned=True))
                    scheme = pl.build_scheme(cfg, src)
                    inv = cfg["invalid"]
                    if inv == "missing-data":
                        scheme.data = {}
                    elif inv == "unknown-method":
                        scheme.optimization_method = "Simplex"
                    elif inv == "unknown-residual-function":
                        scheme.model.dataset_groups["default"].residual_function = "median"
                    elif inv == "parameters-none":
                        scheme.parameters = None
                    elif inv == "missing-parameter":
                        del scheme.parameters._parameters["k2"]
                    try:
                        optimize(scheme, verbose=False)
                        return None
                    except Exception as ex:  # noqa: BLE001
                        return ex
            finally:
                pl.FAULT_HOOK.pop("hook", None)

        for ctx, (kind, out) in core.explore(fn, rec.stats, max_paths=20):
            rec.witness_path(ctx)
            wit = lambda mm: {"env": {}}  # noqa: E731
            n_calls = len(c02.ordered_calls(stubs))
            items = [(f"scheme that cannot be optimised is rejected with the documented error ({cfg['invalid']})",
                      z3.BoolVal(kind == "ok" and isinstance(out, want)), f"invalid:{cfg['invalid']}:wrong-error"),
                     ("rejected before anything is evaluated", z3.BoolVal(not evaluated and n_calls == 0),
                      f"invalid:{cfg['invalid']}:evaluated-before-rejection")]
            rec.check_all(ctx, items, wit)
            rec.want_sample() and rec.sample({"invalid": cfg["invalid"], "raised": type(out).__name__ if out is not None else None})
            rec.validate("invalid", {}, {"ok": True})


def run_config(cfg, rec):
    import glotaran.optimization.optimizer as om
    import glotaran.utils.tee as tee

    rec.encodes(om.Optimizer.__init__, om.Optimizer.optimize, om.Optimizer.create_result, tee.TeeContext.__enter__,
                tee.TeeContext.__exit__)
    rec.assume_note("fault = exception raised by the model (megacomplex) at the k-th objective evaluation of the adversarial "
                    "optimiser; k is a solver variable")
    if cfg["kind"] == "fault":
        _run_fault(cfg, rec)
    else:
        _run_invalid(cfg, rec)


# ------------------------------------------------------------------------------------------------ float side
def concrete(cfg, env):
    return {"ok": True}


def replay(data):
    """Float replay of the fault schedule with the real pipeline (adversarial optimiser in concrete mode)."""
    from harness import pipeline as pl
    from glotaran.optimization.optimizer import InitialParameterError
    from glotaran.optimization.optimizer import Optimizer

    cfg = data["cfg"]
    if cfg["kind"] != "fault":
        return _replay_invalid(cfg)
    K = cfg["K"]
    env0 = data.get("env", {})
    ks = [int(v) + 1 for n, v in env0.items() if n.startswith("fault_at")] or list(range(1, K + 2))
    fcs = [int(v) for n, v in env0.items() if n.startswith("fault_class")] or list(range(optim.N_FAULT_CLASSES))
    for k, fc in [(k, fc) for k in ks for fc in (fcs if k <= K else fcs[:1])]:
        env = c02.salted("r1")
        state = {"armed": False}
        fault = optim.fault_instance(fc)

        def hook(mc, dm, fault=fault, state=state):
            if state["armed"]:
                raise fault

        with Patcher() as p:
            src = pl.Source(env, "r1")
            pl.install(p, src)
            pl.FAULT_HOOK["hook"] = hook
            stdout_before = sys.stdout
            try:
                with warnings.catch_warnings():
                    warnings.simplefilter("ignore")
                    scheme = pl.build_scheme(cfg, src)
                    snap0 = c10.snapshot(scheme)
                    x0 = np.asarray(scheme.parameters.get_label_value_and_bounds_arrays(exclude_non_vary=True)[1], dtype=float)
                    pts = [x0 * (1.0 + 0.04 * (j + 1)) for j in range(K - 1)]
                    ls = _FaultingLS(None, K, k, state, symbolic=False, points=pts)
                    with Patcher() as p2:
                        optim.install_optimizer_stubs(p2, None, src, ls, None)
                        opt = Optimizer(scheme, verbose=bool(cfg.get("verbose")), raise_exception=cfg["raise_exception"])
                        exc = res = rexc = None
                        try:
                            opt.optimize()
                        except Exception as ex:  # noqa: BLE001
                            exc = ex
                        if exc is None:
                            try:
                                res = opt.create_result()
                            except Exception as ex:  # noqa: BLE001
                                rexc = ex
                    head = f"config {cfg['name']}, {type(fault).__name__} at evaluation {k if k <= K else None}"
                    if sys.stdout is not stdout_before:
                        return True, f"{head}: sys.stdout not restored"
                    if c10.diff_snapshots(snap0, c10.snapshot(scheme)):
                        return True, f"{head}: scheme modified: {c10.diff_snapshots(snap0, c10.snapshot(scheme))[:3]}"
                    if cfg["raise_exception"] and k <= K:
                        if exc is not fault:
                            return True, f"{head}: raise_exception=True but optimize() raised {exc!r}"
                        continue
                    if exc is not None:
                        return True, f"{head}: optimize() raised {exc!r}"
                    if k == 1:
                        if not isinstance(rexc, InitialParameterError):
                            return True, f"{head}: expected InitialParameterError, got {rexc!r} / {res}"
                        continue
                    if k <= K:
                        if res is None or res.success or "injected model fault #42" not in str(res.termination_reason):
                            return True, f"{head}: failure not reported (result {res!r}, error {rexc!r})"
                        free = list(res.free_parameter_labels)
                        vals = np.array([res.optimized_parameters.get(lab).value for lab in free])
                        goods = [np.array([np.exp(v) if res.optimized_parameters.get(lab).non_negative else v for v, lab in zip(x, free)])
                                 for x, _ in ls.evals]
                        if not any(np.allclose(vals, g, rtol=1e-9) for g in goods):
                            return True, f"{head}: reported parameters {vals.tolist()} are none of the successfully evaluated points {[g.tolist() for g in goods]}"
                    elif res is None or not res.success:
                        return True, f"{head}: no fault but result unsuccessful ({rexc!r})"
            finally:
                pl.FAULT_HOOK.pop("hook", None)
                sys.stdout = stdout_before
    return False, "fault handling as documented"


def _replay_invalid(cfg):
    from harness import pipeline as pl
    from glotaran.optimization.estimation_provider import UnsupportedResidualFunctionError
    from glotaran.optimization.optimize import optimize
    from glotaran.optimization.optimizer import MissingDatasetsError
    from glotaran.optimization.optimizer import ParameterNotInitializedError
    from glotaran.optimization.optimizer import UnsupportedMethodError
    from glotaran.parameter.parameters import ParameterNotFoundException

    want = {"missing-data": MissingDatasetsError, "unknown-method": UnsupportedMethodError,
            "unknown-residual-function": UnsupportedResidualFunctionError, "parameters-none": ParameterNotInitializedError,
            "missing-parameter": ParameterNotFoundException}[cfg["invalid"]]
    evaluated = []
    with Patcher() as p:
        src = pl.Source(c02.salted("r1"), "r1")
        stubs = pl.install(p, src)
        pl.FAULT_HOOK["hook"] = lambda mc, dm: evaluated.append(1)
        try:
            with warnings.catch_warnings():
                warnings.simplefilter("ignore")
                scheme = pl.build_scheme(cfg, src)
                inv = cfg["invalid"]
                if inv == "missing-data":
                    scheme.data = {}
                elif inv == "unknown-method":
                    scheme.optimization_method = "Simplex"
                elif inv == "unknown-residual-function":
                    scheme.model.dataset_groups["default"].residual_function = "median"
                elif inv == "parameters-none":
                    scheme.parameters = None
                elif inv == "missing-parameter":
                    del scheme.parameters._parameters["k2"]
                try:
                    optimize(scheme, verbose=False)
                    raised = None
                except Exception as ex:  # noqa: BLE001
                    raised = ex
        finally:
            pl.FAULT_HOOK.pop("hook", None)
        n_calls = len(c02.ordered_calls(stubs))
    if not isinstance(raised, want):
        return True, f"invalid scheme ({cfg['invalid']}): expected {want.__name__}, got {raised!r}"
    if evaluated or n_calls:
        return True, f"invalid scheme ({cfg['invalid']}): {len(evaluated)} model evaluations / {n_calls} linear solves before rejection"
    return False, "rejected as documented"
