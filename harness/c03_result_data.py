"""C03 - result datasets decompose the data exactly and on the right coordinates."""
from __future__ import annotations

import warnings

import numpy as np
import z3

from harness import c02_objective as c02
from symx import core
from symx.run import model_env
from symx.values import zreal

BOUNDS = c02.BOUNDS
OUTSIDE = c02.OUTSIDE

FLOAT_SELFCHECK = True


def preload():
    c02.preload()


def label_configs():
    """Dataset labels that are prefixes / substrings of one another or whose concatenations collide."""
    A2 = [0.0, 1.0]
    mcs = {"m1": {"labels": ["s1", "s2"]}}
    out = []
    for name, labs, axes in (
        ("labels-d1-d11", ["d1", "d11"], ([1.0, 2.0], [2.0, 3.0])),
        ("labels-ab-b", ["ab", "b"], ([1.0, 2.0], [2.0, 3.0])),
        ("labels-b-ab", ["b", "ab"], ([1.0, 2.0], [2.0, 3.0])),
        ("labels-a-ab-b", ["a", "ab", "b"], ([1.0, 2.0], [3.0], [1.0, 2.0, 3.0])),
        ("labels-concat-collision", ["ab", "c", "a", "bc"], ([1.0], [1.0], [2.0], [2.0])),
    ):
        dss = [{"label": lab, "mc": ["m1"], "maxis": A2, "gaxis": list(ax), **({"scale": "sc1"} if i == 1 else {})}
               for i, (lab, ax) in enumerate(zip(labs, axes))]
        out.append({"name": name, "mcs": mcs, "datasets": dss, "groups": {"default": {"link_clp": True}}})
    return out


def configs(tier, seed):
    return c02.configs(tier, seed, n_random=8 if tier == "quick" else 250) + label_configs()


def _after(ctx, scheme, opt, stubs):
    res = {}
    for group in opt._optimization_groups:
        res.update(group.create_result_data())
    return res


def _item(da, **sel):
    v = da.sel(**sel)
    return v.item() if hasattr(v, "item") else v


def run_config(cfg, rec):
    import glotaran.optimization.estimation_provider as ep
    import glotaran.optimization.matrix_provider as mp
    import glotaran.optimization.optimization_group as og
    from harness import pipeline as pl

    rec.encodes(og.OptimizationGroup.create_result_data, og.OptimizationGroup.add_weight_to_result_data,
                ep.EstimationProviderLinked.get_result, ep.EstimationProviderUnlinked.get_result,
                mp.MatrixProvider.get_result, ep.EstimationProvider.retrieve_clps)
    rec.assume_note("linear solver outputs are free symbols (noisy data); its residual identity res = y - M c is assumed "
                    "only for the fitted_data = scale x matrix x clp obligations; weights are non-zero")
    if pl.has_label_collision(cfg):
        rec.fp_override = "linked:dataset-label-concatenation-collision"
    for ctx, src, stubs, kind, out in c02.symbolic_run(cfg, rec, after=_after):
        rec.witness_path(ctx)
        wit = lambda mm: {"env": model_env(mm)}  # noqa: E731
        if kind == "exc":
            rec.unexpected(ctx, f"create_result_data raised {type(out).__name__}: {out}", "result:exception", wit)
            continue
        scheme, optimizer, pen, results = out
        # calls made by calculate_penalty only (create_result_data does not re-solve)
        calls = c02.ordered_calls(stubs)
        got = c02.check_objective(cfg, rec, ctx, src, calls, pen, fp_prefix="result:objective")
        if got is None:
            continue
        problems, mappings, pv, full_clps = got
        subst = []
        for s in stubs.values():
            subst += s.substitution()

        def fit_eq(a, b):
            """a == b with the solver's residual identity substituted (res := y - M c), division-free."""
            return core.cross_eq(z3.substitute(a, *subst), z3.substitute(b, *subst) if isinstance(b, z3.ExprRef) else b)
        items, fit_items = [], []
        for ds in cfg["datasets"]:
            lab = ds["label"]
            r = results[lab]
            labels, entry, idx_dep = pl.spec_dataset_matrix(cfg, ds, src, pv)
            w = pl.spec_weight(cfg, ds, src)
            scale = pv[ds["scale"]] if ds.get("scale") else 1
            holes = [var for var in ("clp", "residual", "fitted_data", "matrix", "data", "weight", "weighted_residual") if var in r
                     and any(isinstance(x, float) and x != x for x in np.asarray(r[var].data, dtype=object).flat)]
            if holes:
                rec.unexpected(ctx, f"dataset {lab!r}: reported {holes} contain NaN (values lost when the arrays were put on the "
                               f"dataset's coordinates)", "result:nan", wit)
                continue
            structural = (
                sorted(map(str, r["clp"].coords["clp_label"].values)) == sorted(labels)
                and list(map(float, r.coords["model"].values)) == [float(v) for v in ds["maxis"]]
                and list(map(float, r.coords["global"].values)) == [float(v) for v in ds["gaxis"]]
                and r["data"].dims == (("global", "model") if ds.get("order") == "gm" else ("model", "global"))
                and (("weight" in r) == (w is not None))
                and (("weighted_residual" in r) == (w is not None))
            )
            items.append((f"result arrays lie on the dataset's own coordinates and clp labels", z3.BoolVal(bool(structural)),
                          "result:layout"))
            sc_attr = r.attrs.get("dataset_scale")
            items.append(("attrs.dataset_scale is the dataset's scale", pl.eq_term(ctx, sc_attr, scale), "result:dataset-scale-attr"))
            full = bool(ds.get("gmc"))
            if full:
                glabels, gentry = pl.spec_global_matrix(cfg, ds, src, pv)
            for g, gv in enumerate(ds["gaxis"]):
                ks = [k for k, pb in enumerate(problems) if any(row[0] == lab and row[2] == g for row in pb["rows"])]
                k = ks[0]
                pb, call = problems[k], calls[k]
                for t, mv in enumerate(ds["maxis"]):
                    row = pb["rows"].index((lab, t, g))
                    res_sym = zreal(call["res"][row])
                    wt = w(t, g) if w else None
                    resid = zreal(_item(r["residual"], model=mv, **{"global": gv}))
                    if wt is not None:
                        items.append(("weighted_residual = the solver's residual entry of this data point",
                                      core.cross_eq(zreal(_item(r["weighted_residual"], model=mv, **{"global": gv})), res_sym),
                                      "result:weighted-residual"))
                        items.append(("weighted_residual = weight x residual", core.cross_eq(res_sym, wt * resid), "result:weight-times-residual"))
                        items.append(("reported weight is the weight used", pl.eq_term(ctx, _item(r["weight"], model=mv, **{"global": gv}), wt),
                                      "result:weight"))
                    else:
                        items.append(("residual = the solver's residual entry of this data point", core.cross_eq(resid, res_sym), "result:residual"))
                    data = zreal(_item(r["data"], model=mv, **{"global": gv}))
                    fitted = zreal(_item(r["fitted_data"], model=mv, **{"global": gv}))
                    items.append(("data = fitted_data + residual", core.cross_eq(data, fitted + resid), "result:data-decomposition"))
                    items.append(("reported data is the input data", data == src.term(f"D_{lab}_{t}_{g}"), "result:data"))
                    # fitted = scale * matrix * clp from the REPORTED matrix and clp
                    if not full:
                        acc = 0
                        for L in labels:
                            msel = {"model": mv, "clp_label": L}
                            if "global" in r["matrix"].dims:
                                msel["global"] = gv
                            acc = acc + zreal(_item(r["matrix"], **msel)) * zreal(_item(r["clp"], clp_label=L, **{"global": gv}))
                        fit_items.append(("fitted_data = dataset_scale x matrix x clp (reported arrays)", fit_eq(fitted, scale * acc),
                                          "result:fitted-from-matrix-clp"))
                    else:
                        acc = 0
                        for gl in glabels:
                            for L in labels:
                                msel = {"model": mv, "clp_label": L}
                                if "global" in r["matrix"].dims:
                                    msel["global"] = gv
                                acc = acc + (zreal(_item(r["matrix"], **msel)) * zreal(_item(r["clp"], global_clp_label=gl, clp_label=L))
                                             * zreal(_item(r["global_matrix"], global_clp_label=gl, **{"global": gv})))
                        fit_items.append(("fitted_data = matrix x clp x global_matrix^T (reported arrays)", fit_eq(fitted, acc),
                                          "result:fitted-full-model"))
                    for L in labels:
                        msel = {"model": mv, "clp_label": L}
                        if "global" in r["matrix"].dims:
                            msel["global"] = gv
                        items.append(("reported matrix column of a label is that label's (unscaled) model column",
                                      pl.eq_term(ctx, _item(r["matrix"], **msel), entry(t, L, g)), "result:matrix"))
                if not full:
                    for L in labels:
                        items.append(("reported clp of a label = solver clp for that label; 0 if constrained; parameter x source if related",
                                      pl.eq_term(ctx, _item(r["clp"], clp_label=L, **{"global": gv}), full_clps[k][L]),
                                      "result:clp"))
            if full:
                k = [k for k, pb in enumerate(problems) if pb["ds"] == [lab]][0]
                for j, (gl, L) in enumerate(mappings[k]):
                    items.append(("full model: reported clp[global label, label] = solver clp of that column pair",
                                  pl.eq_term(ctx, _item(r["clp"], global_clp_label=gl, clp_label=L), calls[k]["clp"][j]),
                                  "result:clp-full-model"))
                for g, gv in enumerate(ds["gaxis"]):
                    for gl in glabels:
                        items.append(("reported global matrix column of a label is that label's column",
                                      pl.eq_term(ctx, _item(r["global_matrix"], global_clp_label=gl, **{"global": gv}), gentry(g, gl)),
                                      "result:global-matrix"))
        rec.check_all(ctx, items, wit)
        rec.check_all(ctx, fit_items, wit)
        # validation point
        env = c02.DefaultEnv()
        expected = {}
        for ds in cfg["datasets"]:
            r = results[ds["label"]]
            for var in ("matrix", "weight"):
                if var in r:
                    expected[f"{ds['label']}:{var}"] = [core.evalf(zreal(x), env) for x in np.asarray(r[var].data, dtype=object).flat]
        rec.validate("random-point", dict(env), expected)
        rec.want_sample() and rec.sample({"datasets": list(results), "variables": sorted(map(str, results[cfg["datasets"][0]["label"]].data_vars))})


# ------------------------------------------------------------------------------------------------ float side
def float_results(cfg, env):
    from harness import pipeline as pl
    from symx.env import Patcher
    from glotaran.optimization.optimizer import Optimizer

    with Patcher() as p:
        src = pl.Source(env, getattr(env, "salt", ""))
        pl.install(p, src)
        with warnings.catch_warnings():
            warnings.simplefilter("ignore")
            scheme = pl.build_scheme(cfg, src)
            opt = Optimizer(scheme, verbose=False)
            opt.calculate_penalty()
            res = {}
            for group in opt._optimization_groups:
                res.update(group.create_result_data())
    return res


def concrete(cfg, env):
    res = float_results(cfg, c02.DefaultEnv(env))
    out = {}
    for ds in cfg["datasets"]:
        r = res[ds["label"]]
        for var in ("matrix", "weight"):
            if var in r:
                out[f"{ds['label']}:{var}"] = [float(x) for x in np.asarray(r[var].data).flat]
    return out


def _check_float(cfg, env):
    """Numerical oracle on the real float results: the identities of C03, by coordinate and label."""
    from harness import pipeline as pl

    src = pl.Source(env, getattr(env, "salt", ""))
    try:
        res = float_results(cfg, env)
    except Exception as ex:  # noqa: BLE001
        return True, f"config {cfg['name']}: create_result_data raised {type(ex).__name__}: {ex}"
    problems, pen_specs, pv = pl.spec_problems(cfg, src)
    # independent solution of every documented problem
    sol = []
    for pb in problems:
        M = np.array([[float(pb["cols"][lab][r]) for lab in pb["labels"]] for r in range(len(pb["rows"]))], dtype=float)
        M = M.reshape(len(pb["rows"]), len(pb["labels"]))
        y = np.array([float(v) for v in pb["y"]], dtype=float)
        if pb["fn"] == "variable_projection":
            c = np.linalg.lstsq(M, y, rcond=None)[0]
        else:
            from scipy.optimize import nnls

            c = nnls(M, y)[0]
        sol.append((dict(zip(pb["labels"], c)), y - M @ c))
    tol = 1e-7
    for ds in cfg["datasets"]:
        lab = ds["label"]
        r = res[lab]
        labels, entry, _ = pl.spec_dataset_matrix(cfg, ds, src, pv)
        w = pl.spec_weight(cfg, ds, src)
        scale = float(pv[ds["scale"]]) if ds.get("scale") else 1.0
        head = f"config {cfg['name']} dataset {lab!r}"
        if sorted(map(str, r["clp"].coords["clp_label"].values)) != sorted(labels):
            return True, f"{head}: clp labels {list(r['clp'].coords['clp_label'].values)} != {labels}"
        for g, gv in enumerate(ds["gaxis"]):
            k = [k for k, pb in enumerate(problems) if any(row[0] == lab and row[2] == g for row in pb["rows"])][0]
            pb = problems[k]
            clp_by, resid = sol[k]
            for t, mv in enumerate(ds["maxis"]):
                row = pb["rows"].index((lab, t, g))
                wt = float(w(t, g)) if w else 1.0
                sel = {"model": mv, "global": gv}
                d, f, rs = (float(r[v].sel(**sel)) for v in ("data", "fitted_data", "residual"))
                if not (abs(d - (f + rs)) <= tol * max(1, abs(d))):
                    return True, f"{head} at (model {mv}, global {gv}): data {d} != fitted {f} + residual {rs}"
                if not (abs(rs - resid[row] / wt) <= tol * max(1, abs(rs))):
                    return True, (f"{head} at (model {mv}, global {gv}): residual {rs} but the best linear fit of the documented "
                                  f"problem leaves {resid[row] / wt}")
                if w and not (abs(float(r["weighted_residual"].sel(**sel)) - wt * rs) <= tol * max(1, abs(rs))):
                    return True, f"{head} at (model {mv}, global {gv}): weighted_residual != weight x residual"
                if w and not (abs(float(r["weight"].sel(**sel)) - wt) <= tol * max(1, abs(wt))):
                    return True, (f"{head} at (model {mv}, global {gv}): reported weight {float(r['weight'].sel(**sel))} "
                                  f"but the weight applied there is {wt}")
                if not ds.get("gmc"):
                    acc = 0.0
                    for L in labels:
                        msel = {"model": mv, "clp_label": L}
                        if "global" in r["matrix"].dims:
                            msel["global"] = gv
                        acc += float(r["matrix"].sel(**msel)) * float(r["clp"].sel(clp_label=L, **{"global": gv}))
                    if not (abs(f - scale * acc) <= tol * max(1, abs(f))):
                        return True, (f"{head} at (model {mv}, global {gv}): fitted_data {f} != dataset_scale x matrix x clp "
                                      f"= {scale * acc}")
            if not ds.get("gmc"):
                full = pl.spec_full_clps(pb, clp_by, pv)
                for L in labels:
                    c = float(r["clp"].sel(clp_label=L, **{"global": gv}))
                    if not (abs(c - float(full[L])) <= tol * max(1, abs(c))):
                        return True, f"{head} at global {gv}: clp[{L}] = {c}, documented {float(full[L])}"
    for ds in cfg["datasets"]:
        if not ds.get("gmc"):
            continue
        lab = ds["label"]
        ks = [k for k, pb in enumerate(problems) if pb["kind"] == "full" and pb["ds"] == [lab]]
        if not ks:
            continue
        clp_by = sol[ks[0]][0]
        r = res[lab]
        for (gl, L), c in clp_by.items():
            try:
                got = float(r["clp"].sel(global_clp_label=gl, clp_label=L))
            except Exception as ex:  # noqa: BLE001
                return True, f"config {cfg['name']} dataset {lab!r}: full-model clp[{gl}, {L}] not addressable: {type(ex).__name__}: {ex}"
            if not abs(got - c) <= 1e-6 * max(1.0, abs(c)):
                return True, (f"config {cfg['name']} dataset {lab!r}: full-model clp reported under (global label {gl!r}, label {L!r}) is "
                              f"{got}, the coefficient of that column pair in the documented problem is {c}")
    return False, "float results satisfy the identities"


def replay(data):
    last = (False, "")
    for env in (c02.salted("r1"), c02.salted("r2"), c02.DefaultEnv(dict(data["env"]))):
        v, d = c02._replay_at(data["cfg"], env)
        if not v:
            v, d = _check_float(data["cfg"], env)
        if v:
            return v, d
        last = (v, d)
    return last
