"""C10 - the objective is pure and deterministic; optimize() leaves its inputs unchanged.

History part: evaluations x0, x1, (raise), x0 again on one Optimizer are compared, term for term, with fresh
Optimizers evaluated at a single point.  The linear solver is the recording *functional* stub: equal arguments
give identical symbols, so any state carried from one evaluation to the next shows up as a different term.
Input part: the caller's parameters / data / model are snapshotted before and compared after optimize() +
create_result().  Determinism: two optimisations with the same stub schedule give identical terms.
"""
from __future__ import annotations

import copy
import os
import warnings

import numpy as np
import z3

from harness import c02_objective as c02
from harness import c13_statistics as c13
from harness import optim
from symx import core
from symx.env import Patcher
from symx.run import model_env
from symx.values import SymArray
from symx.values import SymReal
from symx.values import zreal

BOUNDS = {
    "quick": "6 scheme configurations (parameter dependent matrices, relations, penalties, scales, weights, linked and "
    "unlinked, two groups), histories x0, x1, [fault], x0 and fresh single-point optimizers; optimize() with 2 evaluations",
    "thorough": "12 configurations, histories of 4 evaluations with a fault in between, optimize() with 3 evaluations",
}
OUTSIDE = ("process freshness; real scipy iterates; thread schedules are covered only through race-freedom of the prange loops "
           "(two-iteration abstraction over the kernels' current source), not by exploring interleavings")

FLOAT_SELFCHECK = True


def preload():
    c02.preload()
    import glotaran.project.result  # noqa: F401
    import glotaran.builtin.megacomplexes.decay.decay_matrix_gaussian_irf  # noqa: F401
    import glotaran.builtin.megacomplexes.decay.util  # noqa: F401
    import glotaran.builtin.megacomplexes.coherent_artifact.coherent_artifact_megacomplex  # noqa: F401


def _scheme_configs(tier):
    A3, G2, G3 = [0.0, 1.0, 2.0, 3.5], [1.0, 2.0], [1.0, 2.0, 3.0]
    out = []

    def add(name, **kw):
        out.append(dict(name=name, **kw))

    add("par-matrix-single", mcs={"m1": {"labels": ["s1", "s2"], "pars": ["k1", "k2"]}},
        datasets=[{"label": "d1", "mc": ["m1"], "maxis": A3, "gaxis": G2, "scale": "sc1"}])
    add("par-matrix-relation-penalty", mcs={"m1": {"labels": ["s1", "s2", "s3"], "pars": ["k1", "k2", "k3"]}},
        datasets=[{"label": "d1", "mc": ["m1"], "maxis": A3, "gaxis": G3, "weight": True}],
        relations=[{"source": "s1", "target": "s2", "parameter": "rel1", "interval": [1.0, 2.0]}],
        penalties=[{"source": "s1", "source_intervals": [[1.0, 2.0]], "target": "s3", "target_intervals": [[3.0, 2.0]],
                    "parameter": "pen1"}])  # one interval written (high, low)
    add("par-matrix-linked-scales", mcs={"m1": {"labels": ["s1", "s2"], "pars": ["k1", "k2"]},
                                         "m2": {"labels": ["s2"], "idx": True}},
        datasets=[{"label": "d1", "mc": ["m1"], "maxis": A3, "gaxis": [1.0, 2.0], "scale": "sc1"},
                  {"label": "d2", "mc": ["m1", "m2"], "mc_scale": ["ms1", "ms2"], "maxis": A3, "gaxis": [2.0, 3.0], "scale": "sc2"}],
        groups={"default": {"link_clp": True}})
    add("par-matrix-unlinked-constraint", mcs={"m1": {"labels": ["s1", "s2"], "pars": ["k1", "k2"], "idx": True}},
        datasets=[{"label": "d1", "mc": ["m1"], "maxis": A3, "gaxis": G2},
                  {"label": "d2", "mc": ["m1"], "maxis": A3, "gaxis": G3, "scale": "sc2"}],
        constraints=[{"type": "zero", "target": "s2", "interval": [2.0, 2.0]}],
        groups={"default": {"link_clp": False}})
    add("two-groups-expression", mcs={"m1": {"labels": ["s1", "s2"], "pars": ["k1", "k2"]}},
        datasets=[{"label": "d1", "mc": ["m1"], "maxis": A3, "gaxis": G2},
                  {"label": "d2", "mc": ["m1"], "maxis": A3, "gaxis": G2, "group": "g2", "scale": "sc2"}],
        groups={"g2": {"link_clp": False, "residual_function": "non_negative_least_squares"}},
        expr_params={"e1": "$k1 + $k2"}, extra_params=["unused"])
    # expression parameters used by the model, chained and declared before what they reference (multi-character labels)
    add("expression-chain-forward", mcs={"m1": {"labels": ["s1", "s2"], "pars": ["kfast", "kslow"]}},
        datasets=[{"label": "d1", "mc": ["m1"], "maxis": A3, "gaxis": G2, "scale": "sc1"}],
        expr_params={"kfast": "$kmid * 2", "kmid": "$ktop + $kslow", "ktop": "$kslow * 3"}, expr_first=True)
    # a later linked dataset contributes two labels of its own: their column order must not depend on anything but the scheme
    add("linked-second-dataset-two-new-labels", mcs={"m1": {"labels": ["s1", "s2"], "pars": ["k1", "k2"]}, "m2": {"labels": ["s1", "s4", "s3"]}},
        datasets=[{"label": "d1", "mc": ["m1"], "maxis": A3, "gaxis": [1.0, 2.0]},
                  {"label": "d2", "mc": ["m2"], "maxis": A3, "gaxis": [1.0, 2.0, 3.0], "scale": "sc2"}],
        groups={"default": {"link_clp": True}},
        penalties=[{"source": "s3", "source_intervals": [[1.0, 2.0]], "target": "s4", "target_intervals": [[1.0, 3.0]], "parameter": "pen1"}])
    add("gm-order-dataset-weight", mcs={"m1": {"labels": ["s1", "s2"], "pars": ["k1", "k2"]}},
        datasets=[{"label": "d1", "mc": ["m1"], "maxis": A3, "gaxis": G3, "weight": True, "order": "gm"}])
    add("gm-order-model-weight-linked", mcs={"m1": {"labels": ["s1", "s2"], "pars": ["k1", "k2"]}},
        datasets=[{"label": "d1", "mc": ["m1"], "maxis": A3, "gaxis": [1.0, 2.0], "order": "gm"},
                  {"label": "d2", "mc": ["m1"], "maxis": A3, "gaxis": [2.0, 3.0], "weight": True, "order": "gm"}],
        weights=[{"datasets": ["d1"], "global_interval": [1.0, 1.0]}], groups={"default": {"link_clp": True}})
    add("full-model-par", mcs={"m1": {"labels": ["s1", "s2"], "pars": ["k1", "k2"]}}, gmcs={"g1": {"labels": ["a"]}},
        datasets=[{"label": "d1", "mc": ["m1"], "gmc": ["g1"], "gmc_scale": ["gs1"], "maxis": A3, "gaxis": G2}])
    if tier == "thorough":
        for c in c02.random_configs(18, 10):
            from harness import pipeline as pl

            if pl.valid_cfg(c) and not pl.has_label_collision(c) and c13._dof(c)[2] > 0:
                out.append(dict(c, name="hist-" + c["name"]))
    return out


def configs(tier, seed):
    out = []
    for c in _scheme_configs(tier):
        out.append(dict(c, kind="history", name="history-" + c["name"], fault=False))
        out.append(dict(c, kind="history", name="history-fault-" + c["name"], fault=True))
        if c13._dof(c)[0] - c13._dof(c)[1] - c13._dof(c)[2] > 0:
            out.append(dict(c, kind="inputs", name="inputs-" + c["name"], K=2 if tier == "quick" else 3))
    out += race_configs(tier)
    return out


# ------------------------------------------------------------------------------------------------ helpers
def _sym_x(k, n):
    x = SymArray((n,))
    for i in range(n):
        x[i] = SymReal(z3.Real(f"X{k}_{i}"))
    return x


def _terms(v):
    return [zreal(t) for t in np.asarray(v, dtype=object).flat]


def _same(a, b):
    return len(a) == len(b) and all(x.eq(y) or core.poly_zero(x, y) for x, y in zip(a, b))


def snapshot(scheme):
    snap = {"params": {}, "data": {}, "model": scheme.model.as_dict()}
    for p in scheme.parameters.all():
        snap["params"][p.label] = {k: getattr(p, k) for k in ("value", "minimum", "maximum", "vary", "non_negative", "expression", "standard_error")}
    for lab, ds in scheme.data.items():
        snap["data"][lab] = {str(v): (ds[v].dims, np.array(ds[v].data, dtype=object, copy=True)) for v in ds.data_vars}
        snap["data"][lab]["__coords__"] = {str(c): np.array(ds.coords[c].data, copy=True) for c in ds.coords}
    snap["labels"] = [p.label for p in scheme.parameters.all()]
    return snap


def _eqv(a, b):
    if isinstance(a, SymReal) or isinstance(b, SymReal):
        return isinstance(a, SymReal) and isinstance(b, SymReal) and (a.e.eq(b.e) or core.poly_zero(a.e, b.e))
    if isinstance(a, float) and isinstance(b, float) and a != a and b != b:
        return True
    return type(a) is type(b) and a == b


def diff_snapshots(a, b):
    out = []
    if a["labels"] != b["labels"]:
        out.append(f"parameter labels {a['labels']} -> {b['labels']}")
    for lab, pa in a["params"].items():
        pb = b["params"].get(lab, {})
        for k, v in pa.items():
            if not _eqv(v, pb.get(k)):
                out.append(f"parameter {lab}.{k}: {v!r} -> {pb.get(k)!r}")
    for lab, da in a["data"].items():
        db = b["data"].get(lab, {})
        for var, va in da.items():
            if var == "__coords__":
                for c, arr in va.items():
                    if c not in db.get("__coords__", {}) or not np.array_equal(arr, db["__coords__"][c]):
                        out.append(f"data {lab} coordinate {c} changed")
                continue
            if var not in db:
                out.append(f"data {lab}.{var} removed")
                continue
            if va[0] != db[var][0] or va[1].shape != db[var][1].shape or not all(_eqv(x, y) for x, y in zip(va[1].flat, db[var][1].flat)):
                out.append(f"data {lab}.{var} values changed")
    if str(a["model"]) != str(b["model"]):
        out.append("model specification changed")
    return out


# ------------------------------------------------------------------------------------------------ history part
def _run_history(cfg, rec):
    from harness import pipeline as pl
    from glotaran.optimization.optimizer import Optimizer

    n_free = len(optim.free_parameter_spec(cfg))
    schedule = ["x0", "x1", "x2", "x1", "x0"] if cfg.get("long") else ["x0", "x1", "x0"]
    with Patcher() as p:
        src = pl.Source(None)
        stubs = pl.install(p, src)
        rec.shims += p.record

        def fresh_opt():
            scheme = pl.build_scheme(cfg, src)
            opt = Optimizer(scheme, verbose=False)
            opt._free_parameter_labels = scheme.parameters.get_label_value_and_bounds_arrays(exclude_non_vary=True)[0]
            return scheme, opt

        def fn(ctx):
            for s in stubs.values():
                s.calls.clear()
                s.cache.clear()
            with warnings.catch_warnings():
                warnings.simplefilter("ignore")
                scheme, opt = fresh_opt()
                x0 = scheme.parameters.get_label_value_and_bounds_arrays(exclude_non_vary=True)[1]
                pts = {"x0": x0, "x1": _sym_x(1, n_free), "x2": _sym_x(2, n_free)}
                snap0 = snapshot(scheme)
                seq = []
                for i, name in enumerate(schedule):
                    if cfg["fault"] and i == 1:
                        def hook(mc, dm):
                            raise optim.InjectedFault("injected")
                        pl.FAULT_HOOK["hook"] = hook
                        try:
                            opt.objective_function(_sym_x(9, n_free))
                            seq.append(("fault-not-raised", None))
                        except optim.InjectedFault:
                            pass
                        finally:
                            pl.FAULT_HOOK.pop("hook", None)
                    seq.append((name, _terms(opt.objective_function(pts[name]))))
                changed = diff_snapshots(snap0, snapshot(scheme))
                single = {}
                for name in sorted(set(schedule)):
                    _, o2 = fresh_opt()
                    single[name] = _terms(o2.objective_function(pts[name]))
            return seq, single, changed

        for ctx, (kind, out) in core.explore(fn, rec.stats, max_paths=100):
            rec.witness_path(ctx)
            wit = lambda mm: {"env": model_env(mm)}  # noqa: E731
            if kind == "exc":
                rec.unexpected(ctx, f"objective evaluation raised {type(out).__name__}: {out}", "history:exception", wit)
                continue
            seq, single, changed = out
            items = [("evaluating the objective leaves the caller's parameters, data and model unchanged", z3.BoolVal(not changed),
                      "history:inputs-modified:" + ";".join(sorted({x.split(":")[0] for x in changed}))[:80])]
            for i, (name, pen) in enumerate(seq):
                if pen is None:
                    items.append(("injected fault propagates out of the objective", z3.BoolVal(False), "history:fault-swallowed"))
                    continue
                ok = _same(pen, single[name])
                items.append((f"penalty at a point equals the penalty of a fresh optimizer evaluated only there "
                              f"(history position {i}{', after a raising evaluation' if cfg['fault'] and i >= 1 else ''})",
                              z3.BoolVal(ok) if ok else z3.And([a == b for a, b in zip(pen, single[name])] + [z3.BoolVal(len(pen) == len(single[name]))]),
                              "history:state-dependent-penalty"))
            rec.check_all(ctx, items, wit)
            rec.want_sample() and rec.sample({"schedule": schedule, "fault_between": cfg["fault"], "penalty_entries": len(seq[0][1] or []),
                        "first_entry": str(seq[0][1][0])[:100] if seq[0][1] else None})
            rec.validate("history", dict(c02.DefaultEnv()), {"ok": True})


# ------------------------------------------------------------------------------------------------ inputs part
def _run_inputs(cfg, rec):
    def after(ctx, scheme, opt, result):
        return snapshot(scheme)

    before = {}
    # run twice per path with the same stub schedule: determinism
    from harness import pipeline as pl
    from glotaran.optimization.optimizer import Optimizer

    with Patcher() as p:
        src = pl.Source(None)
        stubs = pl.install(p, src)
        rec.shims += p.record

        def one_run(ctx, scheme):
            ls = optim.AdversarialLeastSquares(ctx, K=cfg.get("K", 2))
            svd = optim.SvdStub(ctx, well_conditioned=True)
            with Patcher() as p2:
                optim.install_optimizer_stubs(p2, ctx, src, ls, svd)
                opt = Optimizer(scheme, verbose=False)
                opt.optimize()
                return opt.create_result()

        def fn(ctx):
            for s in stubs.values():
                s.calls.clear()
                s.cache.clear()
            with warnings.catch_warnings():
                warnings.simplefilter("ignore")
                scheme = pl.build_scheme(cfg, src)
                c13.assume_parameter_domains(ctx, cfg, scheme)
                snap0 = snapshot(scheme)
                r1 = one_run(ctx, scheme)
                snap1 = snapshot(scheme)
                r2 = one_run(ctx, scheme)
                snap2 = snapshot(scheme)
            return snap0, snap1, snap2, r1, r2

        for ctx, (kind, out) in core.explore(fn, rec.stats, max_paths=200):
            rec.witness_path(ctx)
            wit = lambda mm: {"env": model_env(mm)}  # noqa: E731
            if kind == "exc":
                rec.unexpected(ctx, f"optimize raised {type(out).__name__}: {out}", "inputs:exception", wit)
                continue
            snap0, snap1, snap2, r1, r2 = out
            d1 = diff_snapshots(snap0, snap1)
            d2 = diff_snapshots(snap1, snap2)
            items = [("optimize() leaves the caller's parameters, data and model unchanged",
                      z3.BoolVal(not d1 and not d2), "inputs:modified:" + ";".join(sorted({x.split(":")[0] for x in d1 + d2}))[:80])]
            same = (
                [_eqv(a.value, b.value) and _eqv(a.standard_error, b.standard_error) for a, b in zip(r1.optimized_parameters.all(), r2.optimized_parameters.all())]
                + [_eqv(r1.chi_square, r2.chi_square), _eqv(r1.cost, r2.cost), r1.number_of_clps == r2.number_of_clps]
                + [_same(_terms(r1.data[k][v].data), _terms(r2.data[k][v].data)) for k in r1.data for v in ("residual", "fitted_data", "clp")]
            )
            items.append(("optimising the same scheme twice (same optimiser schedule) gives identical results",
                          z3.BoolVal(all(same)), "inputs:non-deterministic"))
            rec.check_all(ctx, items, wit)
            rec.want_sample() and rec.sample({"changes": d1 + d2, "identical_results": all(same)})
            rec.validate("inputs", dict(c02.DefaultEnv()), {"ok": True})


# ------------------------------------------------------------------------------------------------ prange race freedom
def race_configs(tier):
    return [{"name": "prange-race-freedom", "kind": "race", "repeats": 40 if tier == "quick" else 300}]


def _run_race(cfg, rec):
    """Two-iteration abstraction of every prange loop of every parallel=True kernel in the current source."""
    from harness import race

    kernels = race.collect_kernels()
    results = race.analyze(kernels)
    rec.assume_note("numba semantics: a prange loop without cross-iteration conflicts gives the sequential result for every "
                    "schedule and thread count; array-expression statements are parallelised race-free by numba itself; "
                    "prange inside a function jitted with parallel=False is sequential")
    rec.functions |= {f"{k.path.replace('/repo/', '')}:{k.name}(parallel={k.parallel})" for k in kernels.values()}
    # one pseudo-path per analysed loop so that the evidence counts are meaningful
    rec.stats.paths += max(1, len(results))
    for r in results:
        rec.obligations += 1
        rec.stats.branch_queries += r["queries"]
        name = "no two iterations of a prange loop touch a common array cell (for all sizes and inner indices)"
        if r["unknown"]:
            rec.inconclusive.append(f"race analysis of {r['kernel']} loop {r['loop']}: {r['unknown'][:2]}")
        elif r["races"]:
            rec.stats.prove["sat"] += 1
            w = r["races"][0]
            rec.candidates.append((f"race:{r['kernel']}:{w['array']}", name,
                                   {"env": {}, "race": {"kernel": r["kernel"], "file": r["file"], "loop": r["loop"], "witness": w}}))
        else:
            rec.stats.prove["unsat"] += 1
            rec.proved[name] = rec.proved.get(name, 0) + 1
        rec.want_sample() and rec.sample({"kernel": r["kernel"], "loop": r["loop"], "queries": r["queries"], "races": len(r["races"])})
    rec.witnessed += 1


def _race_replay(data):
    """Stress replay: the compiled kernels through the library's matrix implementations, 1 thread vs all threads."""
    import types

    import numba

    import glotaran.builtin.megacomplexes.decay.util as du
    from glotaran.builtin.megacomplexes.decay.irf import IrfMultiGaussian
    from glotaran.builtin.megacomplexes.decay.irf import IrfSpectralMultiGaussian
    from glotaran.parameter import Parameter

    def par(v):
        return Parameter(label="p", value=float(v))

    rng = np.random.default_rng(0)
    times = np.linspace(-1, 20, 400)
    rates = np.array([0.05, 0.3, 1.1, 2.5, 7.0])
    gaxis = np.linspace(400, 700, 24)
    irf3 = IrfMultiGaussian(label="i", center=[par(0.1), par(0.3), par(0.5)], width=[par(0.2), par(0.4), par(0.6)],
                            scale=[par(1.0), par(0.7), par(0.4)], normalize=True)
    irfd = IrfSpectralMultiGaussian(label="i", center=[par(0.1), par(0.3)], width=[par(0.2), par(0.4)], scale=[par(1.0), par(0.5)],
                                    dispersion_center=par(550.0), center_dispersion_coefficients=[par(0.01)],
                                    width_dispersion_coefficients=[], normalize=True)

    def scenarios():
        m = np.zeros((times.size, rates.size))
        du.decay_matrix_implementation_index_independent(m, rates, gaxis, times, types.SimpleNamespace(irf=irf3))
        yield "decay, 3-Gaussian IRF, index independent", m
        m = np.zeros((gaxis.size, times.size, rates.size))
        du.decay_matrix_implementation_index_dependent(m, rates, gaxis, times, types.SimpleNamespace(irf=irfd))
        yield "decay, dispersed 2-Gaussian IRF, index dependent", m
        m = np.zeros((times.size, rates.size))
        du.decay_matrix_implementation_index_independent(m, rates, gaxis, times, types.SimpleNamespace(irf=None))
        yield "decay, no IRF", m

    nmax = numba.config.NUMBA_NUM_THREADS
    numba.set_num_threads(1)
    ref = {n: m.copy() for n, m in scenarios()}
    numba.set_num_threads(nmax)
    try:
        for rep in range(int(data.get("cfg", {}).get("repeats", 40))):
            for n, m in scenarios():
                if not np.array_equal(m, ref[n]):
                    d = float(np.max(np.abs(m - ref[n])))
                    return True, (f"race {data.get('race', {}).get('kernel')}: scenario '{n}' evaluated with {nmax} numba threads differs from the "
                                  f"single-thread result (max abs difference {d:.3e}, repeat {rep})")
    finally:
        numba.set_num_threads(nmax)
    del rng
    return False, f"no difference between 1 and {nmax} threads in the stress scenarios"


def run_config(cfg, rec):
    import glotaran.optimization.optimizer as om
    import glotaran.optimization.optimization_group as og
    import glotaran.model.dataset_group as dg
    from glotaran.model.item import fill_item as _fill_item
    import glotaran.parameter.parameters as pm

    rec.encodes(om.Optimizer.__init__, om.Optimizer.objective_function, om.Optimizer.calculate_penalty, om.Optimizer.optimize,
                om.Optimizer.create_result, og.OptimizationGroup.calculate, dg.DatasetGroup.set_parameters, _fill_item,
                pm.Parameters.set_from_label_and_value_arrays, pm.Parameters.copy)
    rec.assume_note("linear solver = recording functional stub (equal argument terms give identical symbols)")
    if cfg["kind"] == "history":
        _run_history(cfg, rec)
    elif cfg["kind"] == "inputs":
        _run_inputs(cfg, rec)
    elif cfg["kind"] == "race":
        _run_race(cfg, rec)


# ------------------------------------------------------------------------------------------------ float side
def _float_history(cfg, env):
    from harness import pipeline as pl
    from glotaran.optimization.optimizer import Optimizer

    with Patcher() as p:
        src = pl.Source(env, getattr(env, "salt", ""))
        pl.install(p, src)
        with warnings.catch_warnings():
            warnings.simplefilter("ignore")

            def fresh():
                scheme = pl.build_scheme(cfg, src)
                opt = Optimizer(scheme, verbose=False)
                opt._free_parameter_labels = scheme.parameters.get_label_value_and_bounds_arrays(exclude_non_vary=True)[0]
                return scheme, opt

            scheme, opt = fresh()
            x0 = np.asarray(scheme.parameters.get_label_value_and_bounds_arrays(exclude_non_vary=True)[1], dtype=float)
            pts = {"x0": x0, "x1": x0 * 1.1 + 0.05, "x2": x0 * 0.9 + 0.02}
            snap0 = snapshot(scheme)
            seq = []
            for i, name in enumerate(["x0", "x1", "x2", "x1", "x0"]):
                if cfg.get("fault") and i == 1:
                    def hook(mc, dm):
                        raise optim.InjectedFault("injected")
                    pl.FAULT_HOOK["hook"] = hook
                    try:
                        opt.objective_function(x0 * 1.3)
                    except optim.InjectedFault:
                        pass
                    finally:
                        pl.FAULT_HOOK.pop("hook", None)
                seq.append((name, np.asarray(opt.objective_function(pts[name]), dtype=float).copy()))
            changed = diff_snapshots(snap0, snapshot(scheme))
            single = {}
            for name in pts:
                _, o2 = fresh()
                single[name] = np.asarray(o2.objective_function(pts[name]), dtype=float)
    return seq, single, changed


def concrete(cfg, env):
    return {"ok": True}


def _fresh_process_check(cfg, seeds=(0, 1, 4, 7, 8, 9)):
    """'whether or not the process is fresh': the same evaluations in new interpreter processes with different string hash seeds
    (the order of a set of labels differs between them) must give the same penalty vectors."""
    import json
    import subprocess
    import sys

    code = ("import sys, json, warnings; warnings.simplefilter('ignore'); sys.path[:0] = ['/verif', '/repo']\n"
            "from harness import c10_purity as m, c02_objective as c02\n"
            "cfg = json.loads(sys.argv[1])\n"
            "seq, single, changed = m._float_history(cfg, c02.salted('r1'))\n"
            "print('RESULT ' + json.dumps([[float(x) for x in p] for _, p in seq]))\n")
    outs = {}
    for hs in seeds:
        env = dict(os.environ, PYTHONHASHSEED=str(hs), PYTHONWARNINGS="ignore", NUMBA_DISABLE_PERFORMANCE_WARNINGS="1")
        try:
            r = subprocess.run([sys.executable, "-c", code, json.dumps(cfg)], capture_output=True, text=True, timeout=300, env=env)
        except subprocess.TimeoutExpired:
            return None, f"fresh process with hash seed {hs} timed out"
        lines = [ln for ln in r.stdout.splitlines() if ln.startswith("RESULT ")]
        if r.returncode != 0 or not lines:
            return None, f"fresh process with hash seed {hs} failed: {r.stderr[-300:]}"
        outs[hs] = json.loads(lines[-1][7:])
    ref_seed = seeds[0]
    for hs in seeds[1:]:
        for i, (a, b) in enumerate(zip(outs[ref_seed], outs[hs])):
            if len(a) != len(b) or not np.allclose(a, b, rtol=1e-7, atol=1e-10):
                worst = int(np.argmax(np.abs(np.array(a) - np.array(b)))) if len(a) == len(b) else -1
                return True, (f"config {cfg['name']}: evaluation {i} differs between fresh processes (PYTHONHASHSEED {ref_seed} vs {hs}): "
                              f"entry {worst}: {a[worst] if worst >= 0 else len(a)!r} vs {b[worst] if worst >= 0 else len(b)!r}")
    return False, "identical in fresh processes"


def replay(data):
    cfg = data["cfg"]
    if cfg["kind"] == "race":
        return _race_replay(data)
    if any(str(k).startswith("set_iteration_order") for k in (data.get("env") or {})):
        # the counterexample depends on the iteration order of a set: that order is fixed within one process and differs between
        # processes, so it is replayed across fresh interpreters
        v, d = _fresh_process_check(dict(cfg, kind="history", fault=False))
        if v:
            return v, d
    for env in (c02.salted("r1"), c02.salted("r2")):
        if cfg["kind"] == "history":
            try:
                seq, single, changed = _float_history(cfg, env)
            except Exception as ex:  # noqa: BLE001
                return True, f"config {cfg['name']}: objective raised {type(ex).__name__}: {ex}"
            if changed:
                return True, f"config {cfg['name']}: evaluating the objective modified the caller's scheme: {changed[:3]}"
            for i, (name, pen) in enumerate(seq):
                if pen.shape != single[name].shape or not np.allclose(pen, single[name], rtol=1e-9, atol=1e-12):
                    return True, (f"config {cfg['name']}: evaluation {i} (point {name}) gives {pen.tolist()} but a fresh optimizer "
                                  f"evaluated only there gives {single[name].tolist()}")
        else:
            v, d = _float_inputs(cfg, env)
            if v:
                return v, d
    return False, "float code: history independent / inputs unchanged"


def _float_inputs(cfg, env):
    from harness import pipeline as pl
    from glotaran.optimization.optimizer import Optimizer

    with Patcher() as p:
        src = pl.Source(env, getattr(env, "salt", ""))
        pl.install(p, src)
        with warnings.catch_warnings():
            warnings.simplefilter("ignore")
            scheme = pl.build_scheme(cfg, src)
            snap0 = snapshot(scheme)
            results = []
            for _ in range(2):
                x0 = scheme.parameters.get_label_value_and_bounds_arrays(exclude_non_vary=True)[1]
                pts = [np.asarray(x0, dtype=float) * (1.0 + 0.05 * (k + 1)) for k in range(cfg.get("K", 2) - 1)]
                ls = optim.AdversarialLeastSquares(None, K=cfg.get("K", 2), symbolic=False, points=pts)
                with Patcher() as p2:
                    optim.install_optimizer_stubs(p2, None, src, ls, None)
                    opt = Optimizer(scheme, verbose=False)
                    opt.optimize()
                    results.append(opt.create_result())
            snap1 = snapshot(scheme)
    d = diff_snapshots(snap0, snap1)
    if d:
        return True, f"config {cfg['name']}: optimize() changed its inputs: {d[:4]}"
    r1, r2 = results
    if r1.chi_square != r2.chi_square or any(a.value != b.value for a, b in zip(r1.optimized_parameters.all(), r2.optimized_parameters.all())):
        return True, f"config {cfg['name']}: two optimisations of the same scheme differ: chi_square {r1.chi_square} vs {r2.chi_square}"
    return False, "inputs unchanged"
