"""prange race-freedom of the numba kernels by the two-iteration abstraction (part of C10).

The kernels' *current source* is parsed (ast); for every function jitted with ``parallel=True`` and every outermost
``for v in nb.prange(...)`` loop, the array cells written (and read) by one iteration are expressed as integer index
terms of the loop variable and of existential inner loop variables, following calls into other jitted functions
(parameter -> argument, including sliced arguments such as ``matrix[n_w]``).  The SMT query
    i != j  AND  index_of_store(i, inner) == index_of_access(j, inner')
being unsat for all pairs means no two iterations touch a common cell; then - numba's documented semantics for
race-free prange - every schedule and thread count yields the sequential result.  sat = a race; it is replayed by
running the compiled kernels through the library's entry points with 1 and with many threads.
"""
from __future__ import annotations

import ast
import itertools
import os

import z3

REPO = "/repo/glotaran"


class Kernel:
    def __init__(self, name, node, parallel, path):
        self.name, self.node, self.parallel, self.path = name, node, parallel, path
        self.params = [a.arg for a in node.args.args]


def _jit_info(dec):
    """(is_jit, parallel) for a decorator node."""
    if isinstance(dec, ast.Call):
        f = dec.func
        name = f.attr if isinstance(f, ast.Attribute) else getattr(f, "id", "")
        if name in ("jit", "njit"):
            par = False
            for kw in dec.keywords:
                if kw.arg == "parallel" and isinstance(kw.value, ast.Constant):
                    par = bool(kw.value.value)
            return True, par
    elif isinstance(dec, (ast.Attribute, ast.Name)):
        name = dec.attr if isinstance(dec, ast.Attribute) else dec.id
        if name in ("jit", "njit"):
            return True, False
    return False, False


def collect_kernels(root=REPO):
    kernels = {}
    for dirpath, dirs, files in os.walk(root):
        dirs[:] = [d for d in dirs if d not in ("test", "tests", "__pycache__")]
        for fn in files:
            if not fn.endswith(".py"):
                continue
            path = os.path.join(dirpath, fn)
            try:
                tree = ast.parse(open(path).read())
            except SyntaxError:
                continue
            for node in ast.walk(tree):
                if isinstance(node, ast.FunctionDef):
                    for dec in node.decorator_list:
                        is_jit, par = _jit_info(dec)
                        if is_jit:
                            kernels[node.name] = Kernel(node.name, node, par, path)
    return kernels


def _is_prange(node):
    if isinstance(node, ast.For) and isinstance(node.iter, ast.Call):
        f = node.iter.func
        name = f.attr if isinstance(f, ast.Attribute) else getattr(f, "id", "")
        return name == "prange"
    return False


def _is_range_like(node):
    if isinstance(node, ast.For) and isinstance(node.iter, ast.Call):
        f = node.iter.func
        name = f.attr if isinstance(f, ast.Attribute) else getattr(f, "id", "")
        return name in ("prange", "range")
    return False


class Unknown(Exception):
    pass


class Access:
    def __init__(self, base, idx, write, where):
        self.base, self.idx, self.write, self.where = base, idx, write, where


class Analyzer:
    def __init__(self, kernels):
        self.kernels = kernels
        self.fresh = itertools.count()

    def new_int(self, hint):
        return z3.Int(f"{hint}!{next(self.fresh)}")

    def index_term(self, node, env):
        if isinstance(node, ast.Constant) and isinstance(node.value, int):
            return z3.IntVal(node.value)
        if isinstance(node, ast.Name):
            if node.id in env:
                return env[node.id]
            raise Unknown(f"index uses non-loop variable {node.id!r}")
        if isinstance(node, ast.BinOp) and isinstance(node.op, (ast.Add, ast.Sub, ast.Mult)):
            a, b = self.index_term(node.left, env), self.index_term(node.right, env)
            return a + b if isinstance(node.op, ast.Add) else a - b if isinstance(node.op, ast.Sub) else a * b
        if isinstance(node, ast.Slice):
            return self.new_int("slice")  # any position of that axis
        if isinstance(node, ast.UnaryOp) and isinstance(node.op, ast.USub):
            return -self.index_term(node.operand, env)
        raise Unknown(f"unsupported index expression {ast.dump(node)[:60]}")

    def subscript(self, node, env, arrays):
        """(base, full index list) for a Subscript on a tracked array, else None."""
        if not isinstance(node, ast.Subscript):
            return None
        if isinstance(node.value, ast.Subscript):
            inner = self.subscript(node.value, env, arrays)
            if inner is None:
                return None
            base, idx = inner
        elif isinstance(node.value, ast.Name) and node.value.id in arrays:
            base, idx = arrays[node.value.id]
            idx = list(idx)
        else:
            return None
        sl = node.slice
        parts = sl.elts if isinstance(sl, ast.Tuple) else [sl]
        return base, idx + [self.index_term(p, env) for p in parts]

    def accesses(self, body, env, arrays, out, depth=0):
        """Collect accesses of one execution of ``body``; env: name -> z3 Int; arrays: name -> (base, prefix indices)."""
        for st in body:
            for node in ast.walk(st) if not isinstance(st, (ast.For, ast.If, ast.While)) else [st]:
                pass
            self._stmt(st, env, arrays, out, depth)

    def _stmt(self, st, env, arrays, out, depth):
        if isinstance(st, ast.For):
            if _is_range_like(st) and isinstance(st.target, ast.Name):
                env2 = dict(env)
                env2[st.target.id] = self.new_int(st.target.id)
                self.accesses(st.body, env2, arrays, out, depth)
            else:
                self.accesses(st.body, env, arrays, out, depth)  # loop variables of other loops stay unknown
            return
        if isinstance(st, (ast.If, ast.While)):
            self._expr(st.test, env, arrays, out, depth)
            self.accesses(st.body, env, arrays, out, depth)
            self.accesses(st.orelse, env, arrays, out, depth)
            return
        if isinstance(st, (ast.Assign, ast.AugAssign, ast.AnnAssign)):
            targets = st.targets if isinstance(st, ast.Assign) else [st.target]
            for tg in targets:
                sub = self.subscript(tg, env, arrays)
                if sub is not None:
                    out.append(Access(sub[0], sub[1], True, ast.unparse(tg)))
                    if isinstance(st, ast.AugAssign):
                        out.append(Access(sub[0], sub[1], False, ast.unparse(tg)))
                elif isinstance(tg, ast.Name) and tg.id in arrays and isinstance(st, ast.AugAssign):
                    base, idx = arrays[tg.id]
                    out.append(Access(base, list(idx), True, ast.unparse(tg) + " (whole array)"))
                elif isinstance(tg, ast.Subscript):
                    pass  # store into an array that is local to the iteration
            if st.value is not None:
                self._expr(st.value, env, arrays, out, depth)
            return
        if isinstance(st, ast.Expr):
            self._expr(st.value, env, arrays, out, depth)
            return
        for child in ast.iter_child_nodes(st):
            if isinstance(child, ast.expr):
                self._expr(child, env, arrays, out, depth)

    def _expr(self, e, env, arrays, out, depth):
        for node in ast.walk(e):
            if isinstance(node, ast.Call):
                f = node.func
                name = f.attr if isinstance(f, ast.Attribute) else getattr(f, "id", "")
                if name in self.kernels and depth < 4:
                    callee = self.kernels[name]
                    arrays2 = {}
                    for par, arg in zip(callee.params, node.args):
                        if isinstance(arg, ast.Name) and arg.id in arrays:
                            arrays2[par] = arrays[arg.id]
                        else:
                            sub = self.subscript(arg, env, arrays) if isinstance(arg, ast.Subscript) else None
                            if sub is not None:
                                arrays2[par] = sub
                    if arrays2:
                        self.accesses(callee.node.body, {}, arrays2, out, depth + 1)
            elif isinstance(node, ast.Subscript) and isinstance(node.ctx, ast.Load):
                try:
                    sub = self.subscript(node, env, arrays)
                except Unknown:
                    sub = None
                if sub is not None:
                    out.append(Access(sub[0], sub[1], False, ast.unparse(node)))


def analyze(kernels=None):
    """Returns list of dicts: kernel, loop var, queries, races (with witness), unknowns."""
    kernels = kernels or collect_kernels()
    results = []
    for k in kernels.values():
        if not k.parallel:
            continue
        loops = []

        def find(body, inside):
            for st in body:
                if _is_prange(st) and not inside:
                    loops.append(st)
                    continue
                for fld in ("body", "orelse"):
                    sub = getattr(st, fld, None)
                    if isinstance(sub, list):
                        find(sub, inside)

        find(k.node.body, False)
        for lp in loops:
            an = Analyzer(kernels)
            arrays = {p: (p, []) for p in k.params}
            res = {"kernel": k.name, "file": os.path.relpath(k.path, "/repo"), "loop": ast.unparse(lp.target) + " in " + ast.unparse(lp.iter),
                   "queries": 0, "races": [], "unknown": []}
            try:
                va, vb = z3.Int("iter_a"), z3.Int("iter_b")
                acc_a, acc_b = [], []
                an.accesses(lp.body, {lp.target.id: va}, arrays, acc_a)
                an.accesses(lp.body, {lp.target.id: vb}, arrays, acc_b)
            except Unknown as ex:
                res["unknown"].append(str(ex))
                results.append(res)
                continue
            res["accesses_per_iteration"] = len(acc_a)
            for x in acc_a:
                if not x.write:
                    continue
                for y in acc_b:
                    if y.base != x.base:
                        continue
                    n = min(len(x.idx), len(y.idx))
                    s = z3.Solver()
                    s.set("timeout", 10000)
                    s.add(va != vb, va >= 0, vb >= 0)
                    for p, q in zip(x.idx[:n], y.idx[:n]):
                        s.add(p == q)
                    res["queries"] += 1
                    r = str(s.check())
                    if r == "sat":
                        m = s.model()
                        res["races"].append({"array": x.base, "write": x.where, "other": y.where, "other_is_write": y.write,
                                             "iterations": [str(m[va]), str(m[vb])]})
                    elif r != "unsat":
                        res["unknown"].append(f"solver {r} on {x.where} / {y.where}")
            results.append(res)
    return results
