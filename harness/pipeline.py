"""Shared pipeline harness for C02, C03, C10, C13, C14: real OptimizationGroup / providers on terms.

One configuration (a JSON-able dict) describes a scheme.  ``Source`` hands out either z3-backed
symbols (symbolic run) or floats from an environment (encoding validation / replay) under one
naming convention, so the same scheme is built in both worlds:

    D_<ds>_<t>_<g>     data value of dataset ds at model index t, global index g
    W_<ds>_<t>_<g>     dataset weight
    M_<mc>_<ds>_<t>_<label>[_<g>]   model matrix entry of megacomplex mc (index dependent: _g)
    B_..., C_...       for parameter dependent matrices: entry = B + p * C
    G_<gmc>_<ds>_<g>_<label>        global matrix entry (full model)
    P_<param>          parameter value

``spec_problems`` is the independent specification (written on abstract numbers: z3 terms or floats).
"""
from __future__ import annotations

import hashlib
import math
import warnings

import re as _re

import numpy as np
import xarray as xr
import z3

from symx import core
from symx.env import Patcher
from symx.env import install_numeric_shims
from symx.values import SymArray
from symx.values import SymReal
from symx.values import zreal

INF = float("inf")

from glotaran.model import DatasetModel  # noqa: E402
from glotaran.model import Megacomplex  # noqa: E402
from glotaran.model import Model  # noqa: E402
from glotaran.model import ParameterType  # noqa: E402
from glotaran.model import megacomplex  # noqa: E402
from glotaran.parameter import Parameter  # noqa: E402
from glotaran.parameter import Parameters  # noqa: E402
from glotaran.project import Scheme  # noqa: E402


# ---------------------------------------------------------------------------------- value source
class Source:
    """Symbols by name: symbolic (SymReal over z3.Real) or concrete (floats from env)."""

    def __init__(self, env=None, salt=""):
        self.env = env
        self.used = {}
        self.salt = salt

    @property
    def symbolic(self):
        return self.env is None

    def get(self, name):
        if self.env is None:
            v = SymReal(z3.Real(name))
            self.used[name] = v
            return v
        if name not in self.env:
            self.env[name] = core.default_value(name, self.salt)
        return float(self.env[name])

    def term(self, name):
        """Same symbol on the specification side: z3 term or float."""
        v = self.get(name)
        return v.e if isinstance(v, SymReal) else v


CURRENT: Source = Source({})


def set_source(src):
    global CURRENT
    CURRENT = src


# ---------------------------------------------------------------------------------- test megacomplexes
with warnings.catch_warnings():
    warnings.simplefilter("ignore")

    @megacomplex()
    class SymMC(Megacomplex):
        """Megacomplex whose matrix entries are free symbols (optionally B + p*C)."""

        type: str = "verif-sym-mc"
        dimension: str = "model"
        labels: list[str]
        index_dependent: bool = False
        pars: list[ParameterType] | None = None
        fault: str | None = None

        def calculate_matrix(self, dataset_model, global_axis, model_axis, **kwargs):
            src = CURRENT
            hook = FAULT_HOOK.get("hook")
            if hook is not None:
                hook(self, dataset_model)
            nt, ng = model_axis.size, global_axis.size
            shape = (ng, nt, len(self.labels)) if self.index_dependent else (nt, len(self.labels))
            m = SymArray(shape) if src.symbolic else np.zeros(shape, dtype=float)
            for k, lab in enumerate(self.labels):
                for t in range(nt):
                    for g in range(ng) if self.index_dependent else (None,):
                        suffix = f"{self.label}_{dataset_model.label}_{t}_{lab}" + ("" if g is None else f"_{g}")
                        if self.pars is None:
                            v = src.get("M_" + suffix)
                        else:
                            p = self.pars[k]
                            v = src.get("B_" + suffix) + p.value * src.get("C_" + suffix)
                        if g is None:
                            m[t, k] = v
                        else:
                            m[g, t, k] = v
            return list(self.labels), m

        def finalize_data(self, dataset_model, dataset, is_full_model=False, as_global=False):
            pass

    @megacomplex()
    class SymGlobalMC(Megacomplex):
        type: str = "verif-sym-global-mc"
        dimension: str = "global"
        labels: list[str]

        def calculate_matrix(self, dataset_model, global_axis, model_axis, **kwargs):
            # called with (global_axis, model_axis) swapped by calculate_dataset_matrix(global_matrix=True)
            src = CURRENT
            n = model_axis.size
            m = SymArray((n, len(self.labels))) if src.symbolic else np.zeros((n, len(self.labels)))
            for k, lab in enumerate(self.labels):
                for g in range(n):
                    m[g, k] = src.get(f"G_{self.label}_{dataset_model.label}_{g}_{lab}")
            return list(self.labels), m

        def finalize_data(self, dataset_model, dataset, is_full_model=False, as_global=False):
            pass


FAULT_HOOK = {}
PModel = Model.create_class_from_megacomplexes([SymMC, SymGlobalMC])


# ---------------------------------------------------------------------------------- scheme building
def param_labels(cfg):
    labs = []

    def add(x):
        if x is not None and x not in labs:
            labs.append(x)

    for mc in cfg["mcs"].values():
        for p in mc.get("pars") or []:
            add(p)
    for ds in cfg["datasets"]:
        add(ds.get("scale"))
        for p in ds.get("mc_scale") or []:
            add(p)
        for p in ds.get("gmc_scale") or []:
            add(p)
    for r in cfg.get("relations", []):
        add(r["parameter"])
    for p in cfg.get("penalties", []):
        add(p["parameter"])
    for p in cfg.get("extra_params", []):
        add(p)
    exprs = cfg.get("expr_params", {})
    for e in exprs.values():  # plain parameters that only occur inside expressions
        for ref in _re.findall(r"\$([\w.]+)", e):
            if ref not in exprs:
                add(ref)
    return [x for x in labs if x not in exprs]


def with_expression_values(cfg, pv):
    """pv extended by the value every expression parameter denotes (arithmetic expressions over $labels), from the inputs."""
    exprs = dict(cfg.get("expr_params", {}))
    out = dict(pv)
    while exprs:
        progressed = False
        for lab, e in list(exprs.items()):
            refs = _re.findall(r"\$([\w.]+)", e)
            if all(r in out for r in refs):
                out[lab] = eval(_re.sub(r"\$([\w.]+)", lambda m: f"__v[{m.group(1)!r}]", e), {"__v": out, "__builtins__": {}})  # noqa: S307
                del exprs[lab]
                progressed = True
        if not progressed:
            raise ValueError(f"cyclic expression parameters {sorted(exprs)}")
    return out


def _iv(v, src=None):
    """Interval from the configuration; a bound given as a string is a symbol ``IV_<string>`` (C08 end-to-end)."""
    def b(x):
        return src.get(f"IV_{x}") if isinstance(x, str) else float(x)

    if v is None:
        return None
    if isinstance(v[0], (list, tuple)):
        return [tuple(b(x) for x in i) for i in v]
    return (b(v[0]), b(v[1]))


def build_model(cfg, src):
    mcs = {
        lab: {"type": "verif-sym-mc", "labels": list(mc["labels"]), "index_dependent": bool(mc.get("idx")),
              "pars": list(mc["pars"]) if mc.get("pars") else None}
        for lab, mc in cfg["mcs"].items()
    }
    for lab, g in cfg.get("gmcs", {}).items():
        mcs[lab] = {"type": "verif-sym-global-mc", "labels": list(g["labels"])}
    datasets = {}
    for ds in cfg["datasets"]:
        d = {"megacomplex": list(ds["mc"]), "group": ds.get("group", "default")}
        if ds.get("mc_scale"):
            d["megacomplex_scale"] = list(ds["mc_scale"])
        if ds.get("gmc"):
            d["global_megacomplex"] = list(ds["gmc"])
            if ds.get("gmc_scale"):
                d["global_megacomplex_scale"] = list(ds["gmc_scale"])
        if ds.get("scale"):
            d["scale"] = ds["scale"]
        datasets[ds["label"]] = d
    groups = {g: dict(v) for g, v in cfg.get("groups", {}).items()}
    kw = {}
    if cfg.get("constraints"):
        kw["clp_constraints"] = [
            {"type": c["type"], "target": c["target"], **({"interval": _iv(c["interval"], src)} if c.get("interval") else {})}
            for c in cfg["constraints"]
        ]
    if cfg.get("relations"):
        kw["clp_relations"] = [
            {"source": r["source"], "target": r["target"], "parameter": r["parameter"],
             **({"interval": _iv(r["interval"], src)} if r.get("interval") else {})}
            for r in cfg["relations"]
        ]
    if cfg.get("penalties"):
        kw["clp_penalties"] = [
            {"type": "equal_area", "source": p["source"], "target": p["target"], "parameter": p["parameter"],
             "source_intervals": _iv(p["source_intervals"], src), "target_intervals": _iv(p["target_intervals"], src),
             "weight": src.get(f"PW_{i}")}
            for i, p in enumerate(cfg["penalties"])
        ]
    if cfg.get("weights"):
        kw["weights"] = [
            {"datasets": list(w["datasets"]), "value": src.get(f"MW_{i}"),
             **({"global_interval": _iv(w["global_interval"])} if w.get("global_interval") else {}),
             **({"model_interval": _iv(w["model_interval"])} if w.get("model_interval") else {})}
            for i, w in enumerate(cfg["weights"])
        ]
    return PModel(megacomplex=mcs, dataset=datasets, dataset_groups=groups, **kw)


def build_parameters(cfg, src):
    def concrete_opts(o):
        return {k: v for k, v in o.items() if v != "sym"}

    plist = [[lab, 1.0 + 0.1 * i, concrete_opts(cfg.get("param_options", {}).get(lab, {}))] for i, lab in enumerate(param_labels(cfg))]
    elist = [[lab, {"expr": expr}] for lab, expr in cfg.get("expr_params", {}).items()]
    plist = elist + plist if cfg.get("expr_first") else plist + elist  # expr_first: expressions declared before what they reference
    params = Parameters.from_list(plist)
    for lab in param_labels(cfg):
        p = params.get(lab)
        p.value = src.get(f"P_{lab}")
        o = cfg.get("param_options", {}).get(lab, {})
        # symbolic bounds ("sym"): LO_<label> / HI_<label>; float mode defaults bracket the value
        if o.get("min") == "sym":
            if not src.symbolic and f"LO_{lab}" not in src.env:
                src.env[f"LO_{lab}"] = 0.5 * float(p.value)
            object.__setattr__(p, "minimum", src.get(f"LO_{lab}"))
        if o.get("max") == "sym":
            if not src.symbolic and f"HI_{lab}" not in src.env:
                src.env[f"HI_{lab}"] = 2.0 * float(p.value)
            object.__setattr__(p, "maximum", src.get(f"HI_{lab}"))
    params.update_parameter_expression()
    return params


def build_data(cfg, src):
    data = {}
    for ds in cfg["datasets"]:
        lab = ds["label"]
        nt, ng = len(ds["maxis"]), len(ds["gaxis"])
        arr = SymArray((nt, ng)) if src.symbolic else np.zeros((nt, ng))
        w = (SymArray((nt, ng)) if src.symbolic else np.zeros((nt, ng))) if ds.get("weight") else None
        for t in range(nt):
            for g in range(ng):
                arr[t, g] = src.get(f"D_{lab}_{t}_{g}")
                if w is not None:
                    w[t, g] = src.get(f"W_{lab}_{t}_{g}")
        mdim = "model"
        gdim = "global"
        coords = [(mdim, np.asarray(ds["maxis"], dtype=float)), (gdim, np.asarray(ds["gaxis"], dtype=float))]
        if ds.get("order") == "gm":
            # natively stored as (global, model), C-contiguous - as data read from a (pixel, time) file would be
            gcoords = [coords[1], coords[0]]
            dset = xr.DataArray(np.ascontiguousarray(np.asarray(arr).T), coords=gcoords).to_dataset(name="data")
            if w is not None:
                dset["weight"] = xr.DataArray(np.ascontiguousarray(np.asarray(w).T), coords=gcoords)
        else:
            dset = xr.DataArray(np.asarray(arr), coords=coords).to_dataset(name="data")
            if w is not None:
                dset["weight"] = xr.DataArray(np.asarray(w), coords=coords)
        # every input dataset looks as if it came out of an earlier fit (a result dataset fed back in): the attributes a fit
        # writes are present with stale values and must not survive into the new result
        dset.attrs.update({"root_mean_square_error": 123.456, "weighted_root_mean_square_error": 654.321, "dataset_scale": 77.0})
        data[lab] = dset
    return data


def build_scheme(cfg, src):
    set_source(src)
    model = build_model(cfg, src)
    params = build_parameters(cfg, src)
    data = build_data(cfg, src)
    scheme = Scheme(model=model, parameters=params, data=data, add_svd=False,
                    clp_link_tolerance=float(cfg.get("tol", 0.0)), clp_link_method=cfg.get("method", "nearest"),
                    maximum_number_function_evaluations=cfg.get("max_nfev", 3))
    return scheme


# ---------------------------------------------------------------------------------- recording solver stub
class LinearSolverStub:
    """Stands for residual_variable_projection / residual_nnls: records (matrix, data) and returns
    symbols that are a function of the call's (simplified) argument terms."""

    def __init__(self, src, real=None, name="variable_projection"):
        self.src = src
        self.real = real
        self.name = name
        self.calls = []  # dicts: matrix, data, clp, res
        self.cache = {}
        self.tag = "".join(w[0] for w in name.split("_"))

    def __call__(self, matrix, data):
        matrix = np.asarray(matrix)
        data = np.asarray(data)
        if not self.src.symbolic:
            clp, res = self.real(matrix.astype(float), data.astype(float))
            self.calls.append({"matrix": matrix.copy(), "data": data.copy(), "clp": np.asarray(clp), "res": np.asarray(res), "fn": self.name,
                               "phase": getattr(self, "phase", 0)})
            return clp, res
        if matrix.ndim != 2 or data.ndim != 1 or matrix.shape[0] != data.shape[0]:
            raise ValueError(f"linear solver called with shapes {matrix.shape} {data.shape}")
        key = (self.name, matrix.shape, tuple(z3.simplify(zreal(x)).sexpr() for x in matrix.flat),
               tuple(z3.simplify(zreal(x)).sexpr() for x in data.flat))
        if key in self.cache:
            kid = self.cache[key]
        else:
            kid = len(self.cache)
            self.cache[key] = kid
        n, m = matrix.shape[1], matrix.shape[0]
        clp = SymArray((n,))
        res = SymArray((m,))
        for j in range(n):
            clp[j] = SymReal(z3.Real(f"c{self.tag}{kid}_{j}"))
        for i in range(m):
            res[i] = SymReal(z3.Real(f"r{self.tag}{kid}_{i}"))
        self.calls.append({"matrix": matrix.copy(), "data": data.copy(), "clp": clp, "res": res, "kid": kid, "fn": self.name,
                           "phase": getattr(self, "phase", 0)})
        return clp, res

    def substitution(self):
        """Pairs (res symbol, data - matrix @ clp) - the linear solver's residual identity as a rewrite."""
        out = []
        for c in self.calls:
            for i in range(c["matrix"].shape[0]):
                acc = zreal(c["data"][i])
                for j in range(c["matrix"].shape[1]):
                    acc = acc - zreal(c["matrix"][i, j]) * zreal(c["clp"][j])
                out.append((zreal(c["res"][i]), acc))
        return out

    def contract(self):
        """res = data - matrix @ clp for every recorded call (the linear solver's residual identity)."""
        out = []
        for c in self.calls:
            for i in range(c["matrix"].shape[0]):
                acc = zreal(c["data"][i])
                for j in range(c["matrix"].shape[1]):
                    acc = acc - zreal(c["matrix"][i, j]) * zreal(c["clp"][j])
                out.append(zreal(c["res"][i]) == acc)
        return out


def install(p: Patcher, src: Source):
    """All shims for a pipeline run; returns dict of linear-solver stubs by residual function name."""
    import glotaran.optimization.estimation_provider as ep

    stubs = {}
    if src.symbolic:
        install_numeric_shims(p)
        from symx.env import install_set_shims

        install_set_shims(p, ["glotaran.optimization.matrix_provider", "glotaran.optimization.estimation_provider",
                              "glotaran.optimization.data_provider", "glotaran.optimization.optimization_group",
                              "glotaran.optimization.optimizer"])
    for name, real in list(ep.SUPPORTED_RESIUDAL_FUNCTIONS.items()):
        stubs[name] = LinearSolverStub(src, real, name)
        p.setitem(ep.SUPPORTED_RESIUDAL_FUNCTIONS, name, stubs[name], f"SUPPORTED_RESIUDAL_FUNCTIONS[{name}] -> recording functional stub")
    return stubs


# ---------------------------------------------------------------------------------- specification
def _absn(x):
    if isinstance(x, z3.ExprRef):
        return z3.If(x >= 0, x, -x)
    return abs(x)


def _inside(v, iv):
    lo, hi = min(iv), max(iv)
    return lo <= v <= hi


def _applies(item, v):
    iv = item.get("interval")
    if iv is None:
        r = True
    elif isinstance(iv[0], (list, tuple)):
        r = any(_inside(v, i) for i in iv)
    else:
        r = _inside(v, iv)
    return (not r) if item.get("type") == "only" else r


def spec_dataset_matrix(cfg, ds, src, pv):
    """Unscaled labelled model matrix of a dataset: labels (first appearance), entry(t, label, g)."""
    labels = []
    for mcl in ds["mc"]:
        for lab in cfg["mcs"][mcl]["labels"]:
            if lab not in labels:
                labels.append(lab)
    idx_dep = any(cfg["mcs"][m].get("idx") for m in ds["mc"])

    def entry(t, lab, g):
        acc = 0
        for i, mcl in enumerate(ds["mc"]):
            mc = cfg["mcs"][mcl]
            if lab not in mc["labels"]:
                continue
            suffix = f"{mcl}_{ds['label']}_{t}_{lab}" + (f"_{g}" if mc.get("idx") else "")
            if mc.get("pars"):
                v = src.term("B_" + suffix) + pv[mc["pars"][mc["labels"].index(lab)]] * src.term("C_" + suffix)
            else:
                v = src.term("M_" + suffix)
            if ds.get("mc_scale"):
                v = v * pv[ds["mc_scale"][i]]
            acc = acc + v
        return acc

    return labels, entry, idx_dep


def spec_global_matrix(cfg, ds, src, pv):
    labels = []
    for g in ds["gmc"]:
        for lab in cfg["gmcs"][g]["labels"]:
            if lab not in labels:
                labels.append(lab)

    def entry(g, lab):
        acc = 0
        for i, gl in enumerate(ds["gmc"]):
            if lab in cfg["gmcs"][gl]["labels"]:
                v = src.term(f"G_{gl}_{ds['label']}_{g}_{lab}")
                if ds.get("gmc_scale"):
                    v = v * pv[ds["gmc_scale"][i]]
                acc = acc + v
        return acc

    return labels, entry


def spec_weight(cfg, ds, src):
    """weight(t, g) or None.  Dataset weight wins; else product of the model weights that apply."""
    if ds.get("weight"):
        return lambda t, g: src.term(f"W_{ds['label']}_{t}_{g}")
    ws = [(i, w) for i, w in enumerate(cfg.get("weights", [])) if ds["label"] in w["datasets"]]
    if not ws:
        return None

    def weight(t, g):
        acc = 1
        for i, w in ws:
            ok = True
            if w.get("global_interval"):
                ok = ok and _inside(ds["gaxis"][g], w["global_interval"])
            if w.get("model_interval"):
                ok = ok and _inside(ds["maxis"][t], w["model_interval"])
            if ok:
                acc = acc * src.term(f"MW_{i}")
        return acc

    return weight


def spec_reduce(cfg, labels, cols, index_value, pv):
    """Apply relations then constraints at a global index value. cols: label -> list of row terms."""
    labels = list(labels)
    cols = dict(cols)
    info = {"zero": [], "related": {}}
    removed = []
    for r in cfg.get("relations", []):
        if r["target"] in labels and r["source"] in labels and _applies(r, index_value):
            removed.append(r)
    for r in removed:
        cols[r["source"]] = [a + pv[r["parameter"]] * b for a, b in zip(cols[r["source"]], cols[r["target"]])]
    for r in removed:
        if r["target"] in labels:
            labels.remove(r["target"])
            info["related"][r["target"]] = (r["parameter"], r["source"])
    for c in cfg.get("constraints", []):
        if c["target"] in labels and _applies(c, index_value):
            labels.remove(c["target"])
            info["zero"].append(c["target"])
    # a relation whose target was also constrained keeps the relation for retrieval (code: relation loop runs last)
    return labels, {lab: cols[lab] for lab in labels}, info


def spec_align(cfg, group_ds):
    """Aligned axis and membership for a linked group (concrete axes)."""
    tol, method = float(cfg.get("tol", 0.0)), cfg.get("method", "nearest")
    aligned = []
    assign = {}
    for k, ds in enumerate(group_ds):
        res = []
        for v in ds["gaxis"]:
            v = float(v)
            if k > 0:
                cands = [a for a in aligned if abs(a - v) <= tol and (method != "forward" or a >= v) and (method != "backward" or a <= v)]
                if cands:
                    best = min(abs(a - v) for a in cands)
                    v = [a for a in cands if abs(a - v) == best][0]
            res.append(v)
        assign[ds["label"]] = res
        aligned = sorted(set(aligned) | set(res))
    return aligned, assign


def groups_of(cfg):
    out = {}
    for ds in cfg["datasets"]:
        out.setdefault(ds.get("group", "default"), []).append(ds)
    return out


def group_is_linked(cfg, gname, dss):
    link = cfg.get("groups", {}).get(gname, {}).get("link_clp")
    if link is None:
        if any(ds.get("gmc") for ds in dss):
            return False
        return True  # all datasets share model dimension "model" and global dimension "global"
    return bool(link)


def spec_problems(cfg, src, pv_override=None):
    """Independent specification: ordered list of linear problems and the equal-area penalties.

    pv_override: {label: term} - values of plain parameters other than the scheme's (objective at another optimiser vector).

    Returns (problems, penalties) where problems is a list of dicts with keys
    group, rows [(ds, t, g)], labels (reduced, canonical order), cols {label: [row terms]}, y [row terms],
    full_labels, info (zero / related), index_value, kind ('index'|'full') and penalties is a list of
    functions clp_lookup -> term (see spec_penalties).
    """
    pv = with_expression_values(cfg, {lab: (pv_override or {}).get(lab, src.term(f"P_{lab}")) for lab in param_labels(cfg)})
    problems = []
    pen_specs = []
    for gname, dss in groups_of(cfg).items():
        linked = group_is_linked(cfg, gname, dss)
        fn = cfg.get("groups", {}).get(gname, {}).get("residual_function", "variable_projection")
        if not linked:
            for ds in dss:
                labels, entry, _ = spec_dataset_matrix(cfg, ds, src, pv)
                w = spec_weight(cfg, ds, src)
                nt, ng = len(ds["maxis"]), len(ds["gaxis"])
                if ds.get("gmc"):
                    glabels, gentry = spec_global_matrix(cfg, ds, src, pv)
                    rows = [(ds["label"], t, g) for g in range(ng) for t in range(nt)]
                    cols = {}
                    for gl in glabels:
                        for lab in labels:
                            cols[(gl, lab)] = [gentry(g, gl) * entry(t, lab, g) * (w(t, g) if w else 1) for (_, t, g) in rows]
                    y = [src.term(f"D_{ds['label']}_{t}_{g}") * (w(t, g) if w else 1) for (_, t, g) in rows]
                    problems.append({"group": gname, "fn": fn, "kind": "full", "rows": rows, "labels": list(cols), "cols": cols,
                                     "y": y, "full_labels": list(cols), "info": {"zero": [], "related": {}}, "ds": [ds["label"]],
                                     "index_value": None})
                    continue
                scale = pv[ds["scale"]] if ds.get("scale") else 1
                first = len(problems)
                for g in range(ng):
                    rows = [(ds["label"], t, g) for t in range(nt)]
                    cols = {lab: [scale * entry(t, lab, g) for t in range(nt)] for lab in labels}
                    rl, rc, info = spec_reduce(cfg, labels, cols, ds["gaxis"][g], pv)
                    if w:
                        rc = {lab: [c * w(t, g) for c, (_, t, _g) in zip(col, rows)] for lab, col in rc.items()}
                    y = [src.term(f"D_{ds['label']}_{t}_{g}") * (w(t, g) if w else 1) for t in range(nt)]
                    problems.append({"group": gname, "fn": fn, "kind": "index", "rows": rows, "labels": rl, "cols": rc, "y": y,
                                     "full_labels": labels, "info": info, "ds": [ds["label"]], "index_value": ds["gaxis"][g]})
                pen_specs.append((gname, list(range(first, len(problems))), [float(v) for v in ds["gaxis"]]))
        else:
            aligned, assign = spec_align(cfg, dss)
            first = len(problems)
            for a in aligned:
                members = [(ds, assign[ds["label"]].index(a)) for ds in dss if a in assign[ds["label"]]]
                full_labels = []
                per = []
                for ds, g in members:
                    labels, entry, _ = spec_dataset_matrix(cfg, ds, src, pv)
                    per.append((ds, g, labels, entry))
                    for lab in labels:
                        if lab not in full_labels:
                            full_labels.append(lab)
                rows = [(ds["label"], t, g) for ds, g in members for t in range(len(ds["maxis"]))]
                cols = {lab: [] for lab in full_labels}
                for ds, g, labels, entry in per:
                    scale = pv[ds["scale"]] if ds.get("scale") else 1
                    for t in range(len(ds["maxis"])):
                        for lab in full_labels:
                            cols[lab].append(scale * entry(t, lab, g) if lab in labels else 0)
                rl, rc, info = spec_reduce(cfg, full_labels, cols, a, pv)
                ws = {ds["label"]: spec_weight(cfg, ds, src) for ds, _ in members}
                anyw = any(v is not None for v in ws.values())

                def wrow(r, ws=ws):
                    f = ws[r[0]]
                    return f(r[1], r[2]) if f else 1

                if anyw:
                    rc = {lab: [c * wrow(r) for c, r in zip(col, rows)] for lab, col in rc.items()}
                y = [src.term(f"D_{r[0]}_{r[1]}_{r[2]}") * (wrow(r) if ws[r[0]] else 1) for r in rows]
                problems.append({"group": gname, "fn": fn, "kind": "index", "rows": rows, "labels": rl, "cols": rc, "y": y,
                                 "full_labels": full_labels, "info": info, "ds": [ds["label"] for ds, _ in members],
                                 "index_value": a})
            pen_specs.append((gname, list(range(first, len(problems))), aligned))
    return problems, pen_specs, pv


def spec_full_clps(problem, clp_by_label, pv):
    """Retrieved (full) clps of an index problem from the solver's reduced clps by label."""
    full = {}
    for lab in problem["full_labels"]:
        if lab in clp_by_label:
            full[lab] = clp_by_label[lab]
        else:
            full[lab] = 0
    for tgt, (par, srcl) in problem["info"]["related"].items():
        full[tgt] = pv[par] * full[srcl]
    return full


def spec_penalties(cfg, src, problems, pen_specs, full_clps, pv):
    """Equal-area penalties, in order, per group.  full_clps[k] = {label: term} for problem k."""
    out = {}
    for gname, ks, axis in pen_specs:
        for i, pen in enumerate(cfg.get("penalties", [])):
            def area(label, intervals):
                acc = []
                for iv in intervals:
                    for k, v in zip(ks, axis):
                        if _inside(v, iv) and label in problems[k]["full_labels"]:
                            acc.append(full_clps[k][label])
                return acc

            sa, ta = area(pen["source"], pen["source_intervals"]), area(pen["target"], pen["target_intervals"])
            if not sa or not ta:
                continue
            s = sum(sa[1:], sa[0])
            t = sum(ta[1:], ta[0])
            out.setdefault(gname, []).append(_absn(s - pv[pen["parameter"]] * t) * src.term(f"PW_{i}"))
    return out


# ---------------------------------------------------------------------------------- comparison helpers
def eq_term(ctx, a, b):
    """z3 formula a == b for number-likes (SymReal / float / term)."""
    za = a if isinstance(a, z3.ExprRef) else zreal(a)
    zb = b if isinstance(b, z3.ExprRef) else zreal(b)
    return core.cross_eq(za, zb)


def syntactically_equal(a, b):
    za = a if isinstance(a, z3.ExprRef) else zreal(a)
    zb = b if isinstance(b, z3.ExprRef) else zreal(b)
    d = z3.simplify(za - zb, som=True)
    return z3.is_rational_value(d) and d.numerator_as_long() == 0


def match_columns(ctx, code_matrix, spec_cols, labels):
    """Map each code column to the spec label whose column it equals. Returns (mapping list, formula list)
    or (None, reason) when no bijection exists even syntactically+semantically."""
    nrow, ncol = code_matrix.shape
    if ncol != len(labels):
        return None, f"solver matrix has {ncol} columns, specification has {len(labels)} ({labels})"
    unused = list(labels)
    mapping = []
    goals = []
    for j in range(ncol):
        found = None
        for lab in unused:
            if all(syntactically_equal(code_matrix[r, j], spec_cols[lab][r]) for r in range(nrow)):
                found = lab
                break
        if found is None:
            for lab in unused:
                f = z3.And([eq_term(ctx, code_matrix[r, j], spec_cols[lab][r]) for r in range(nrow)])
                if ctx.prove(f)[0] == "unsat":
                    found = lab
                    break
        if found is None:
            return None, f"column {j} of the matrix given to the linear solver equals no expected column of {unused}"
        unused.remove(found)
        mapping.append(found)
    return mapping, goals


def float_close(a, b, tol=1e-8):
    a, b = float(a), float(b)
    if math.isnan(a) or math.isnan(b):
        return math.isnan(a) and math.isnan(b)
    return abs(a - b) <= tol * max(1.0, abs(a), abs(b))


def valid_cfg(cfg):
    """Every linear problem of the configuration must have at least as many rows as columns and >= 1 column."""
    try:
        problems, _, _ = spec_problems(cfg, Source({}))
    except Exception:  # noqa: BLE001
        return False
    return all(len(pb["rows"]) >= len(pb["labels"]) >= 1 for pb in problems)


def has_label_collision(cfg):
    """Two aligned indices of a linked group hold different dataset sets whose concatenated labels coincide."""
    for gname, dss in groups_of(cfg).items():
        if not group_is_linked(cfg, gname, dss):
            continue
        aligned, assign = spec_align(cfg, dss)
        seen = {}
        for a in aligned:
            members = tuple(ds["label"] for ds in dss if a in assign[ds["label"]])
            key = "".join(members)
            if seen.setdefault(key, members) != members:
                return True
    return False
