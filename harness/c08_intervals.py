"""C08 - interval-scoped constraints, relations, penalties, weights act on their interval.

Real functions executed on symbolic interval bounds / axis points / index values:
IntervalItem.applies, OnlyConstraint.applies, MatrixProvider.does_interval_item_apply /
apply_constraints / apply_relations, EstimationProvider.retrieve_clps, _get_area,
DataProvider.get_axis_slice_from_interval / add_model_weight.
"""
from __future__ import annotations

import types
import warnings

import numpy as np
import z3

from symx import core
from symx.env import Patcher
from symx.env import SymNP
from symx.run import model_env
from symx.values import sym
from symx.values import symarr
from symx.values import zreal

INF = float("inf")
BOUNDS = {
    "quick": "applies: 1-2 intervals, all bounds and the index symbolic; slices: strictly increasing symbolic axes "
    "of 1-3 points, bounds finite symbolic or +-inf; equal-area slices on 3 points with 1 interval; constraints/"
    "relations on a 3-point symbolic axis with 3 labels; model weights on 2x3 concrete axes with symbolic bounds",
    "thorough": "axes up to 4 points (slices) / 4 (area), 2 area intervals, interval lists of 3, weights 3x3",
}
OUTSIDE = "axes with more points than stated; floating-point ties between |axis-bound| distances"


def preload():
    import glotaran.optimization.optimization_group  # noqa: F401


def _abs(e):
    return z3.If(e >= 0, e, -e)


def configs(tier, seed):
    big = tier == "thorough"
    out = []
    for kind in ("zero", "only", "relation"):
        for nint in (0, 1, 2) + ((3,) if big else ()):
            out.append({"name": f"applies-{kind}-{nint}", "kind": "applies", "item": kind, "nint": nint})
    for n in (1, 2, 3) + ((4,) if big else ()):
        for lo_inf in (False, True):
            for hi_inf in (False, True):
                out.append({"name": f"slice-n{n}-{'inf' if lo_inf else 'fin'}-{'inf' if hi_inf else 'fin'}",
                            "kind": "slice", "n": n, "lo_inf": lo_inf, "hi_inf": hi_inf})
    for n in (2, 3) if big else (2,):
        out.append({"name": f"slice-monotone-n{n}", "kind": "monotone", "n": n})
    for n in (2, 3) + ((4,) if big else ()):
        for hi_inf in (False, True):
            for lo_inf in (False, True):
                out.append({"name": f"area-n{n}-{'inf' if lo_inf else 'fin'}-{'inf' if hi_inf else 'fin'}",
                            "kind": "area", "n": n, "lo_inf": lo_inf, "hi_inf": hi_inf, "nint": 1})
    if big:
        out.append({"name": "area-n3-2intervals", "kind": "area", "n": 3, "lo_inf": False, "hi_inf": False, "nint": 2})
    for kind in ("zero", "only", "relation"):
        out.append({"name": f"reduce-{kind}", "kind": "reduce", "item": kind, "n": 3 if not big else 4})
    for w in ("global", "model", "both", "none", "two-weights"):
        out.append({"name": f"weight-{w}", "kind": "weight", "w": w, "shape": [2, 3] if not big else [3, 3]})
    out.append({"name": "weight-dataset-and-model", "kind": "weight2", "shape": [2, 2]})
    # end to end through the real optimisation pipeline, interval bounds symbolic, linked and unlinked groups
    A4 = [0.0, 1.0, 2.0, 3.5]
    for linked in (False, True):
        dss = [{"label": "d1", "mc": ["m1"], "maxis": A4, "gaxis": [1.0, 2.0, 3.0]}]
        if linked:
            dss.append({"label": "d2", "mc": ["m1"], "maxis": A4, "gaxis": [2.0, 3.0, 4.0], "scale": "sc2"})
        base = {"mcs": {"m1": {"labels": ["s1", "s2", "s3"]}}, "datasets": dss, "groups": {"default": {"link_clp": linked}}}
        tag = "linked" if linked else "unlinked"
        out.append(dict(base, name=f"pipeline-zero-{tag}", kind="pipeline", constraints=[{"type": "zero", "target": "s2", "interval": ["lo", "hi"]}]))
        out.append(dict(base, name=f"pipeline-only-{tag}", kind="pipeline", constraints=[{"type": "only", "target": "s3", "interval": ["lo", "hi"]}]))
        out.append(dict(base, name=f"pipeline-relation-{tag}", kind="pipeline",
                        relations=[{"source": "s1", "target": "s2", "parameter": "rel1", "interval": ["lo", "hi"]}]))
        out.append(dict(base, name=f"pipeline-penalty-{tag}", kind="pipeline",
                        penalties=[{"source": "s1", "source_intervals": [["lo", "hi"]], "target": "s3", "target_intervals": [[1.0, 4.0]],
                                    "parameter": "pen1"}]))
    # several interval items with different (concrete) intervals side by side: no item may act beyond its own interval
    A3 = [0.0, 1.0, 2.0]
    for linked in (False, True):
        dss = [{"label": "d1", "mc": ["m1"], "maxis": A3 + [3.0], "gaxis": [1.0, 2.0, 3.0, 4.0]}]
        if linked:
            dss.append({"label": "d2", "mc": ["m1"], "maxis": A3, "gaxis": [2.0, 3.0, 4.0, 5.0], "scale": "sc2"})
        base = {"mcs": {"m1": {"labels": ["s1", "s2", "s3", "s4"]}}, "datasets": dss, "groups": {"default": {"link_clp": linked}}}
        tag = "linked" if linked else "unlinked"
        out.append(dict(base, name=f"multi-two-relations-{tag}", kind="multi",
                        relations=[{"source": "s1", "target": "s2", "parameter": "rel1", "interval": [1.0, 2.0]},
                                   {"source": "s1", "target": "s3", "parameter": "rel2", "interval": [3.0, 4.0]}]))
        out.append(dict(base, name=f"multi-relation-zero-only-{tag}", kind="multi",
                        relations=[{"source": "s4", "target": "s2", "parameter": "rel1", "interval": [[1.0, 1.0], [4.0, INF]]}],
                        constraints=[{"type": "zero", "target": "s3", "interval": [2.0, 3.0]},
                                     {"type": "only", "target": "s1", "interval": [-INF, 3.0]}]))
        # a relation and a zero constraint on the same target with different intervals; a penalty over the target makes the
        # retrieved (full) clps of every index part of the objective: 0 where constrained, parameter x source where related
        out.append(dict(base, name=f"multi-relation-and-zero-same-target-{tag}", kind="multi",
                        relations=[{"source": "s1", "target": "s2", "parameter": "rel1", "interval": [1.0, 2.0]}],
                        constraints=[{"type": "zero", "target": "s2", "interval": [3.0, 4.0]}],
                        penalties=[{"source": "s2", "source_intervals": [[1.0, 4.0]], "target": "s3", "target_intervals": [[1.0, 4.0]],
                                    "parameter": "pen1"}]))
        out.append(dict(base, name=f"multi-two-penalties-{tag}", kind="multi",
                        penalties=[{"source": "s1", "source_intervals": [[1.0, 2.0]], "target": "s2", "target_intervals": [[3.0, INF]], "parameter": "pen1"},
                                   {"source": "s3", "source_intervals": [[4.0, 2.6]], "target": "s4", "target_intervals": [[1.0, 1.4], [3.6, 9.0]],
                                    "parameter": "pen2"}]))
    return out


def _multi(cfg, rec):
    """Real pipeline, concrete intervals: every linear problem / penalty equals the documented one (C02 obligations per index)."""
    from harness import c02_objective as c02

    for ctx, src, stubs, kind, out in c02.symbolic_run(cfg, rec):
        rec.witness_path(ctx)
        wit = lambda mm: {"env": model_env(mm)}  # noqa: E731
        if kind == "exc":
            rec.unexpected(ctx, f"pipeline raised {type(out).__name__}: {out}", "multi:exception", wit)
            continue
        scheme, optimizer, pen, _ = out
        c02.check_objective(cfg, rec, ctx, src, c02.ordered_calls(stubs), pen, fp_prefix="multi")
        rec.want_sample() and rec.sample({"config": cfg["name"], "columns_per_problem": [c["matrix"].shape[1] for c in c02.ordered_calls(stubs)]})


def run_config(cfg, rec):
    import glotaran.optimization.data_provider as dp
    import glotaran.optimization.estimation_provider as ep
    import glotaran.optimization.matrix_provider as mp

    rec.assume_note("axes strictly increasing; nearest-point semantics: Inside <= Affected <= Hull, ties either way")
    if cfg["kind"] == "multi":
        return _multi(cfg, rec)
    with Patcher() as p:
        f = SymNP()
        for m in (dp, ep, mp):
            p.set(m, "np", f, "numpy facade")
        rec.shims += p.record
        {"applies": _applies, "slice": _slice, "monotone": _monotone, "area": _area, "reduce": _reduce,
         "weight": _weight, "weight2": _weight2, "pipeline": _pipeline}[cfg["kind"]](cfg, rec)


# ------------------------------------------------------------------ spec helpers (inputs only)
def inside(x, lo, hi):
    """x in closed interval [min(lo,hi), max(lo,hi)]; lo/hi z3 terms or +-inf floats."""
    conds = []
    lo_c, hi_c = _is_inf(lo), _is_inf(hi)
    if lo_c is None and hi_c is None:
        return z3.And(x >= z3.If(lo <= hi, lo, hi), x <= z3.If(lo <= hi, hi, lo))
    # at least one infinite bound: effective lower = min, upper = max
    lower = upper = None
    if lo_c == -1 or hi_c == -1:
        lower = None
    elif lo_c == 1:
        lower = hi if hi_c is None else None  # (inf, x) -> lower is x ; (inf, inf) -> empty set except inf
        if hi_c == 1:
            return z3.BoolVal(False)
    elif hi_c == 1:
        lower = lo
    if lo_c == 1 or hi_c == 1:
        upper = None
    elif lo_c == -1:
        upper = hi if hi_c is None else None
        if hi_c == -1:
            return z3.BoolVal(False)
    elif hi_c == -1:
        upper = lo
    if lower is not None:
        conds.append(x >= lower)
    if upper is not None:
        conds.append(x <= upper)
    return z3.And(conds) if conds else z3.BoolVal(True)


def _is_inf(b):
    if isinstance(b, float) and b in (INF, -INF):
        return 1 if b > 0 else -1
    return None


def _zb(b):
    return b if _is_inf(b) else zreal(b)


def _sym_axis(ctx, name, n):
    a = symarr(n, name)
    for i in range(n - 1):
        ctx.assume(zreal(a[i]) < zreal(a[i + 1]))
    return a


# ------------------------------------------------------------------ applies
def _make_item(kind, interval):
    from glotaran.model.clp_constraint import OnlyConstraint
    from glotaran.model.clp_constraint import ZeroConstraint
    from glotaran.model.clp_relation import ClpRelation

    if kind == "zero":
        return ZeroConstraint(target="t", interval=interval)
    if kind == "only":
        return OnlyConstraint(target="t", interval=interval)
    return ClpRelation(source="s", target="t", parameter="p", interval=interval)


def _intervals(nint, prefix="i"):
    if nint == 0:
        return None, []
    pairs = [(sym(f"{prefix}lo{k}"), sym(f"{prefix}hi{k}")) for k in range(nint)]
    return (pairs[0] if nint == 1 else list(pairs)), pairs


def _applies(cfg, rec):
    import glotaran.optimization.matrix_provider as mp
    from glotaran.model.clp_constraint import OnlyConstraint
    from glotaran.model.interval_item import IntervalItem

    rec.encodes(IntervalItem.applies, OnlyConstraint.applies, mp.MatrixProvider.does_interval_item_apply)

    def fn(ctx):
        interval, pairs = _intervals(cfg["nint"])
        item = _make_item(cfg["item"], interval)
        x = sym("x")
        return pairs, x, mp.MatrixProvider.does_interval_item_apply(item, x)

    for ctx, (kind, out) in core.explore(fn, rec.stats):
        m = rec.witness_path(ctx)
        if kind == "exc":
            rec.unexpected(ctx, f"applies raised {type(out).__name__}: {out}", f"applies:{cfg['item']}:exception",
                           lambda mm: {"env": model_env(mm)})
            continue
        pairs, x, r = out
        member = z3.Or([inside(x.e, lo.e, hi.e) for lo, hi in pairs]) if pairs else z3.BoolVal(True)
        want = z3.Not(member) if cfg["item"] == "only" else member
        vars_ = [x.e] + [v.e for pr in pairs for v in pr]
        rec.check(ctx, "applies(index) <=> index in union of closed intervals (only = complement)",
                  want == z3.BoolVal(bool(r)), f"applies:{cfg['item']}:membership",
                  lambda mm, vars_=vars_: {"env": model_env(mm, vars_)})
        if m is not None:
            rec.validate("path", model_env(m, vars_), {"r": bool(r)})
        rec.want_sample() and rec.sample({"pc": [str(c) for c in ctx.pc][:6], "applies": bool(r)})


# ------------------------------------------------------------------ slices
def _slice_goal(axis_z, lo, hi, sl):
    """Sandwich: Inside <= Affected <= Hull for slice sl over axis (z3 terms); lo/hi z3 or +-inf."""
    n = len(axis_z)
    start, stop = int(sl.start), int(sl.stop)
    aff = [start <= k < stop for k in range(n)]
    lo_c, hi_c = _is_inf(lo), _is_inf(hi)
    # normalised bounds for the hull
    if lo_c is None and hi_c is None:
        lower, upper = z3.If(lo <= hi, lo, hi), z3.If(lo <= hi, hi, lo)
    else:
        lower = -INF if (lo_c == -1 or hi_c == -1) else (hi if lo_c == 1 else lo) if (lo_c == 1) != (hi_c == 1) else INF
        upper = INF if (lo_c == 1 or hi_c == 1) else (hi if lo_c == -1 else lo) if (lo_c == -1) != (hi_c == -1) else -INF

    def nearest(j, b):
        if _is_inf(b):
            return z3.BoolVal(j == (n - 1 if b > 0 else 0))
        return z3.And([_abs(axis_z[j] - b) <= _abs(axis_z[u] - b) for u in range(n)])

    goals = []
    for k in range(n):
        goals.append(("every axis point inside the closed interval is affected",
                      z3.Implies(inside(axis_z[k], lo, hi), z3.BoolVal(aff[k]))))
        if aff[k]:
            goals.append(("no affected point lies beyond the axis point nearest to a bound",
                          z3.And(z3.Or([nearest(j, lower) for j in range(0, k + 1)]),
                                 z3.Or([nearest(j, upper) for j in range(k, n)]))))
    return goals


def _slice(cfg, rec):
    import glotaran.optimization.data_provider as dp

    rec.encodes(dp.DataProvider.get_axis_slice_from_interval)
    n = cfg["n"]

    def fn(ctx):  # noqa: F811 - kept for reference, fn2 below is the one explored
        axis = _sym_axis(ctx, "a", n)
        lo = -INF if cfg["lo_inf"] else sym("lo")
        hi = INF if cfg["hi_inf"] else sym("hi")
        ctx.log = (axis, lo, hi)
        return dp.DataProvider.get_axis_slice_from_interval((lo, hi), axis)

    # also the reversed presentation of infinite bounds: (inf, lo) and (hi, -inf)
    variants = [False, True] if (cfg["lo_inf"] or cfg["hi_inf"]) else [False]
    for rev in variants:
        def fn2(ctx, rev=rev):
            axis = _sym_axis(ctx, "a", n)
            lo = -INF if cfg["lo_inf"] else sym("lo")
            hi = INF if cfg["hi_inf"] else sym("hi")
            ctx.log = (axis, lo, hi, rev)
            return dp.DataProvider.get_axis_slice_from_interval((hi, lo) if rev else (lo, hi), axis)

        for ctx, (kind, out) in core.explore(fn2, rec.stats):
            m = rec.witness_path(ctx)
            axis, lo, hi, rv = ctx.log
            az = [zreal(a) for a in axis]
            vars_ = az + [b.e for b in (lo, hi) if not _is_inf(b)]
            wit = lambda mm, vars_=vars_, rv=rv: {"env": model_env(mm, vars_), "reversed": rv}  # noqa: E731
            if kind == "exc":
                rec.unexpected(ctx, f"slice raised {type(out).__name__}: {out}", "slice:exception", wit)
                continue
            fp = "slice:" + ("upper-inf" if cfg["hi_inf"] else "finite") + ("-lower-inf" if cfg["lo_inf"] else "")
            items = [(nm, g, fp + (":inside-missed" if nm.startswith("every") else ":beyond-nearest"))
                     for nm, g in _slice_goal(az, _zb(lo), _zb(hi), out)]
            rec.check_all(ctx, items, wit)
            if m is not None:
                rec.validate("path", dict(model_env(m, vars_), reversed=rv), {"start": int(out.start), "stop": int(out.stop)})
            rec.want_sample() and rec.sample({"pc": [str(c) for c in ctx.pc][:6], "slice": [int(out.start), int(out.stop)]})


def _monotone(cfg, rec):
    import glotaran.optimization.data_provider as dp

    n = cfg["n"]
    rec.encodes(dp.DataProvider.get_axis_slice_from_interval)

    def fn(ctx):
        axis = _sym_axis(ctx, "a", n)
        lo, hi, lo2, hi2 = sym("lo"), sym("hi"), sym("lo2"), sym("hi2")
        ctx.assume(z3.And(lo2.e <= lo.e, lo.e <= hi.e, hi.e <= hi2.e))
        ctx.log = (axis, lo, hi, lo2, hi2)
        s1 = dp.DataProvider.get_axis_slice_from_interval((lo, hi), axis)
        s2 = dp.DataProvider.get_axis_slice_from_interval((lo2, hi2), axis)
        return s1, s2

    for ctx, (kind, out) in core.explore(fn, rec.stats):
        m = rec.witness_path(ctx)
        axis, lo, hi, lo2, hi2 = ctx.log
        vars_ = [zreal(a) for a in axis] + [v.e for v in (lo, hi, lo2, hi2)]
        wit = lambda mm, vars_=vars_: {"env": model_env(mm, vars_)}  # noqa: E731
        if kind == "exc":
            rec.unexpected(ctx, f"slice raised {type(out).__name__}", "slice:exception", wit)
            continue
        s1, s2 = out
        a1 = set(range(int(s1.start), int(s1.stop)))
        a2 = set(range(int(s2.start), int(s2.stop)))
        rec.check(ctx, "enlarging an interval never shrinks the affected set", z3.BoolVal(a1 <= a2),
                  "slice:monotone", wit)
        if m is not None:
            rec.validate("path", model_env(m, vars_), {"s1": [int(s1.start), int(s1.stop)], "s2": [int(s2.start), int(s2.stop)]})
        rec.want_sample() and rec.sample({"pc": [str(c) for c in ctx.pc][:6], "slices": [sorted(a1), sorted(a2)]})


# ------------------------------------------------------------------ equal-area index sets
def _area(cfg, rec):
    import glotaran.optimization.estimation_provider as ep

    rec.encodes(ep._get_area)
    n, nint = cfg["n"], cfg["nint"]

    def fn(ctx):
        axis = _sym_axis(ctx, "a", n)
        ivs = []
        for k in range(nint):
            lo = -INF if cfg["lo_inf"] else sym(f"lo{k}")
            hi = INF if cfg["hi_inf"] else sym(f"hi{k}")
            ivs.append((lo, hi))
        clps = [symarr(2, f"c{i}") for i in range(n)]
        ctx.log = (axis, ivs, clps)
        return ep._get_area("s", [["x", "s"]] * n, clps, ivs, axis)

    for ctx, (kind, out) in core.explore(fn, rec.stats):
        m = rec.witness_path(ctx)
        axis, ivs, clps = ctx.log
        az = [zreal(a) for a in axis]
        vars_ = az + [b.e for iv in ivs for b in iv if not _is_inf(b)]
        wit = lambda mm, vars_=vars_: {"env": model_env(mm, vars_)}  # noqa: E731
        if kind == "exc":
            rec.unexpected(ctx, f"_get_area raised {type(out).__name__}: {out}", "area:exception", wit)
            continue
        names = [str(zreal(v)) for v in np.asarray(out, dtype=object).flat]
        idx = []
        for nm in names:
            i, j = nm[1:].split("_")
            idx.append(int(i))
            if j != "1":
                rec.unexpected(ctx, "area takes the clp of another label", "area:wrong-label", wit)
        items = []
        if nint == 1:
            lo, hi = ivs[0]
            sl = slice(min(idx), max(idx) + 1) if idx else slice(0, 0)
            contiguous = sorted(idx) == list(range(sl.start, sl.stop)) and len(set(idx)) == len(idx)
            items.append(("each index enters an interval's area at most once, contiguously", z3.BoolVal(contiguous),
                          "area:duplicates"))
            tag = ("upper-inf" if cfg["hi_inf"] else "finite") + ("-lower-inf" if cfg["lo_inf"] else "")
            for nm, g in _slice_goal(az, _zb(lo), _zb(hi), sl):
                items.append((nm, g, f"area:{tag}:" + ("inside-missed" if nm.startswith("every") else "beyond-nearest")))
        else:
            # union of intervals: every point inside some interval is included
            for k in range(n):
                ins = z3.Or([inside(az[k], _zb(lo), _zb(hi)) for lo, hi in ivs])
                items.append(("every axis point inside one of the intervals enters the area",
                              z3.Implies(ins, z3.BoolVal(k in idx)), "area:list:inside-missed"))
        rec.check_all(ctx, items, wit)
        if m is not None:
            rec.validate("path", model_env(m, vars_), {"indices": idx})
        rec.want_sample() and rec.sample({"pc": [str(c) for c in ctx.pc][:6], "area_indices": idx})


# ------------------------------------------------------------------ constraints / relations on matrices
def _fake_provider(cls, model, parameters=None):
    prov = object.__new__(cls)
    prov._group = types.SimpleNamespace(model=model, parameters=parameters)
    return prov


class _Params:
    def __init__(self, d):
        self.d = d

    def get(self, label):
        return self.d[label]


def _reduce(cfg, rec):
    import glotaran.optimization.estimation_provider as ep
    import glotaran.optimization.matrix_provider as mp
    from glotaran.parameter import Parameter

    rec.encodes(mp.MatrixProvider.apply_constraints, mp.MatrixProvider.apply_relations,
                mp.MatrixProvider.reduce_matrix, ep.EstimationProvider.retrieve_clps)
    n, kind = cfg["n"], cfg["item"]
    labels = ["s", "t", "u"]

    def fn(ctx):
        axis = _sym_axis(ctx, "a", n)
        lo, hi = sym("lo"), sym("hi")
        item = _make_item(kind, (lo, hi))
        model = types.SimpleNamespace(
            clp_constraints=[item] if kind != "relation" else [],
            clp_relations=[item] if kind == "relation" else [],
        )
        pval = sym("p")
        par = Parameter(label="p", value=1.0)
        object.__setattr__(par, "value", pval)
        params = _Params({"p": par})
        prov = _fake_provider(mp.MatrixProvider, model, params)
        M = symarr((2, 3), "m")
        red = prov.reduce_matrix(mp.MatrixContainer(list(labels), M), axis)
        est = _fake_provider(ep.EstimationProvider, model, params)
        back = []
        for i in range(n):
            rc = symarr(len(red[i].clp_labels), f"r{i}")
            back.append((rc, est.retrieve_clps(list(labels), red[i].clp_labels, rc, axis[i])))
        ctx.log = (axis, lo, hi, pval, M)
        return red, back

    for ctx, (okind, out) in core.explore(fn, rec.stats):
        m = rec.witness_path(ctx)
        axis, lo, hi, pval, M = ctx.log
        az = [zreal(a) for a in axis]
        vars_ = az + [lo.e, hi.e]
        wit = lambda mm, vars_=vars_: {"env": model_env(mm, vars_)}  # noqa: E731
        if okind == "exc":
            rec.unexpected(ctx, f"reduce raised {type(out).__name__}: {out}", f"reduce:{kind}:exception", wit)
            continue
        red, back = out
        items = []
        affected = []
        for i in range(n):
            ins = inside(az[i], lo.e, hi.e)
            want = z3.Not(ins) if kind == "only" else ins
            has_t = "t" in red[i].clp_labels
            affected.append(not has_t)
            items.append((f"{kind}: target column removed exactly at the indices the interval selects",
                          want == z3.BoolVal(not has_t), f"reduce:{kind}:index-set"))
            mat = red[i].matrix
            rc, clps = back[i]
            full = {lab: zreal(clps[k]) for k, lab in enumerate(labels)} if len(clps) == 3 else None
            if full is None:
                items.append(("retrieved clps have full length", z3.BoolVal(False), f"reduce:{kind}:clp-length"))
                continue
            pos = {lab: k for k, lab in enumerate(red[i].clp_labels)}
            for lab in labels:
                col = [zreal(M[r, labels.index(lab)]) for r in range(2)]
                if lab in pos:
                    got = [zreal(mat[r, pos[lab]]) for r in range(2)]
                    if kind == "relation" and lab == "s" and not has_t:
                        tcol = [zreal(M[r, 1]) for r in range(2)]
                        col = [c + pval.e * t for c, t in zip(col, tcol)]
                    items.append(("reduced matrix keeps unaffected columns / adds parameter x target to the source",
                                  z3.And([g == c for g, c in zip(got, col)]), f"reduce:{kind}:columns"))
                    items.append(("retrieved clp of a kept label is the solver's clp for that label",
                                  full[lab] == zreal(rc[pos[lab]]), f"reduce:{kind}:retrieve"))
            if not has_t:
                want_t = pval.e * full["s"] if kind == "relation" else z3.RealVal(0)
                items.append(("constrained clp is exactly zero / related clp exactly parameter x source",
                              full["t"] == want_t, f"reduce:{kind}:target-clp"))
        rec.check_all(ctx, items, wit)
        if m is not None:
            rec.validate("path", model_env(m, vars_), {"affected": affected})
        rec.want_sample() and rec.sample({"pc": [str(c) for c in ctx.pc][:6], "affected_indices": affected})


# ------------------------------------------------------------------ model weights
def _weight_model(cfg, bounds):
    from glotaran.model.weight import Weight

    w = cfg["w"]
    g, mo = (bounds["glo"], bounds["ghi"]), (bounds["mlo"], bounds["mhi"])
    if w == "global":
        return [Weight(datasets=["d1"], global_interval=g, value=bounds["v0"])]
    if w == "model":
        return [Weight(datasets=["d1"], model_interval=mo, value=bounds["v0"])]
    if w == "both":
        return [Weight(datasets=["d1"], global_interval=g, model_interval=mo, value=bounds["v0"])]
    if w == "none":
        return [Weight(datasets=["d1", "d2"], value=bounds["v0"]), Weight(datasets=["d2"], value=bounds["v1"])]
    return [Weight(datasets=["d1"], global_interval=g, value=bounds["v0"]),
            Weight(datasets=["d1"], model_interval=mo, value=bounds["v1"])]


def _weight_axes(shape):
    return np.arange(shape[0], dtype=float) * 1.5, np.arange(shape[1], dtype=float) * 2.0 + 1.0


def _call_add_model_weight(dp, weights, shape, existing=None):
    prov = object.__new__(dp.DataProvider)
    maxis, gaxis = _weight_axes(shape)
    prov._weight = {"d1": existing}
    prov._model_axes = {"d1": maxis}
    prov._global_axes = {"d1": gaxis}
    model = types.SimpleNamespace(weights=weights)
    with warnings.catch_warnings(record=True) as wlist:
        warnings.simplefilter("always")
        prov.add_model_weight(model, "d1", "time", "spectral")
    return prov._weight["d1"], len(wlist)


def _weight(cfg, rec):
    import glotaran.optimization.data_provider as dp

    rec.encodes(dp.DataProvider.add_model_weight, dp.DataProvider.get_axis_slice_from_interval)
    shape = cfg["shape"]
    maxis, gaxis = _weight_axes(shape)

    def fn(ctx):
        b = {k: sym(k) for k in ("glo", "ghi", "mlo", "mhi", "v0", "v1")}
        ctx.log = b
        return _call_add_model_weight(dp, _weight_model(cfg, b), shape)

    for ctx, (kind, out) in core.explore(fn, rec.stats):
        m = rec.witness_path(ctx)
        b = ctx.log
        vars_ = [v.e for v in b.values()]
        wit = lambda mm, vars_=vars_: {"env": model_env(mm, vars_)}  # noqa: E731
        if kind == "exc":
            rec.unexpected(ctx, f"add_model_weight raised {type(out).__name__}: {out}", "weight:exception", wit)
            continue
        w, nwarn = out
        items = []
        # spec: per weight item a rectangle (sandwich) - Inside points carry the factor; points
        # outside the hull do not.  Between (hull minus inside) either is accepted.
        specs = [wt for wt in _weight_model(cfg, b) if "d1" in wt.datasets]
        for i in range(shape[0]):
            for j in range(shape[1]):
                got = zreal(w[i, j])
                alts = [z3.RealVal(1)]
                for wt in specs:
                    ins_parts, hull_parts = [], []
                    for iv, ax, k in ((wt.global_interval, gaxis, j), (wt.model_interval, maxis, i)):
                        if iv is None:
                            continue
                        axz = [zreal(x) for x in ax]
                        ins_parts.append(inside(axz[k], iv[0].e, iv[1].e))
                        hull_parts.append(_in_hull(axz, k, iv[0].e, iv[1].e))
                    ins = z3.And(ins_parts) if ins_parts else z3.BoolVal(True)
                    hull = z3.And(hull_parts) if hull_parts else z3.BoolVal(True)
                    v = wt.value.e
                    alts = [z3.If(ins, a * v, z3.If(hull, c, a)) for a in alts for c in (a * v, a)]
                items.append(("model weight: value multiplies every point inside the interval(s), none beyond nearest",
                              z3.Or([got == a for a in alts]), "weight:rectangle"))
        items.append(("no warning without dataset weight", z3.BoolVal(nwarn == 0), "weight:spurious-warning"))
        rec.check_all(ctx, items, wit)
        if m is not None:
            env = model_env(m, vars_)
            rec.validate("path", env, {"w": [core.evalf(zreal(x), env) for x in np.asarray(w, dtype=object).flat]})
        rec.want_sample() and rec.sample({"pc": [str(c) for c in ctx.pc][:6], "w00": str(zreal(w[0, 0]))})


def _in_hull(axz, k, lo, hi):
    n = len(axz)
    lower, upper = z3.If(lo <= hi, lo, hi), z3.If(lo <= hi, hi, lo)

    def nearest(j, b):
        return z3.And([_abs(axz[j] - b) <= _abs(axz[u] - b) for u in range(n)])

    return z3.And(z3.Or([nearest(j, lower) for j in range(0, k + 1)]), z3.Or([nearest(j, upper) for j in range(k, n)]))


def _weight2(cfg, rec):
    """Dataset weight and model weight both present: dataset weight used, one warning."""
    import glotaran.optimization.data_provider as dp
    from glotaran.model.weight import Weight

    rec.encodes(dp.DataProvider.add_model_weight)
    shape = cfg["shape"]

    def fn(ctx):
        dw = symarr(tuple(shape), "dw")
        v = sym("v0")
        ctx.log = (dw, v)
        return _call_add_model_weight(dp, [Weight(datasets=["d1"], value=v)], shape, existing=dw)

    for ctx, (kind, out) in core.explore(fn, rec.stats):
        rec.witness_path(ctx)
        dw, v = ctx.log
        vars_ = [zreal(x) for x in dw.flat] + [v.e]
        wit = lambda mm, vars_=vars_: {"env": model_env(mm, vars_)}  # noqa: E731
        if kind == "exc":
            rec.unexpected(ctx, f"dataset weight + model weight raised {type(out).__name__}: {out}",
                           "weight:dataset-and-model:exception", wit)
            continue
        w, nwarn = out
        items = [("dataset weight wins over model weight",
                  z3.And([zreal(a) == zreal(b) for a, b in zip(np.asarray(w, dtype=object).flat, dw.flat)]),
                  "weight:dataset-and-model:value"),
                 ("exactly one warning", z3.BoolVal(nwarn == 1), "weight:dataset-and-model:warning")]
        rec.check_all(ctx, items, wit)
        rec.want_sample() and rec.sample({"warnings": nwarn})


# ------------------------------------------------------------------ end to end through the pipeline
def _pipeline_axis(cfg):
    from harness import pipeline as pl

    dss = cfg["datasets"]
    if pl.group_is_linked(cfg, "default", dss):
        return pl.spec_align(cfg, dss)[0]
    return [float(v) for v in dss[0]["gaxis"]]


def _pipeline(cfg, rec):
    """The real Optimizer.calculate_penalty with a symbolic interval: the set of global indices at which the item acts."""
    import warnings as _w

    from harness import c02_objective as c02
    from harness import pipeline as pl
    from glotaran.optimization.optimizer import Optimizer

    axis = _pipeline_axis(cfg)
    with Patcher() as p:
        src = pl.Source(None)
        stubs = pl.install(p, src)
        rec.shims += p.record

        def fn(ctx):
            for s_ in stubs.values():
                s_.calls.clear()
                s_.cache.clear()
            with _w.catch_warnings():
                _w.simplefilter("ignore")
                scheme = pl.build_scheme(cfg, src)
                opt = Optimizer(scheme, verbose=False)
                pen = opt.calculate_penalty()
            return c02.ordered_calls(stubs), pen

        for ctx, (kind, out) in core.explore(fn, rec.stats, max_paths=400):
            rec.witness_path(ctx)
            lo, hi = z3.Real("IV_lo"), z3.Real("IV_hi")
            wit = lambda mm: {"env": model_env(mm, [lo, hi])}  # noqa: E731
            if kind == "exc":
                rec.unexpected(ctx, f"pipeline raised {type(out).__name__}: {out}", "pipeline:exception", wit)
                continue
            calls, pen = out
            items = []
            if cfg.get("constraints") or cfg.get("relations"):
                item = (cfg.get("constraints") or cfg.get("relations"))[0]
                if len(calls) != len(axis):
                    rec.unexpected(ctx, f"{len(calls)} problems for {len(axis)} indices", "pipeline:problems", wit)
                    continue
                for i, a in enumerate(axis):
                    acts = calls[i]["matrix"].shape[1] == 2  # one of the three columns is gone at this index
                    ins = inside(zreal(a), lo, hi)
                    want = z3.Not(ins) if item.get("type") == "only" else ins
                    items.append(("end to end: the item acts at exactly the global indices inside its closed interval (only = complement)",
                                  want == z3.BoolVal(bool(acts)), f"pipeline:{item.get('type', 'relation')}:index-set"))
            else:
                # equal-area penalty: which indices' clps enter the source area (sandwich: Inside <= used <= Hull)
                last = zreal(np.asarray(pen, dtype=object).flat[-1])
                names = set(core.free_vars(last))
                used = []
                for i in range(len(axis)):
                    kid = calls[i]["kid"]
                    tag = stubs[calls[i]["fn"]].tag
                    used.append(f"c{tag}{kid}_0" in names)  # clp of label s1 (first column) at index i
                az = [zreal(a) for a in axis]
                n = len(axis)
                idx = [i for i, u in enumerate(used) if u]
                sl = slice(min(idx), max(idx) + 1) if idx else slice(0, 0)
                items.append(("equal-area source indices form one contiguous block", z3.BoolVal(idx == list(range(sl.start, sl.stop))),
                              "pipeline:penalty:contiguous"))
                for nm, g in _slice_goal(az, lo, hi, sl):
                    items.append(("end to end penalty: " + nm, g, "pipeline:penalty:" + ("inside-missed" if nm.startswith("every") else "beyond-nearest")))
                del n
            rec.check_all(ctx, items, wit)
            rec.want_sample() and rec.sample({"pc": [str(c)[:80] for c in ctx.pc][:6], "columns_per_index": [c["matrix"].shape[1] for c in calls]})
    rec.validate("pipeline", {}, {"ok": True})


def _f_pipeline(cfg, env):
    """Float replay: real pipeline with concrete bounds; affected index set vs closed interval membership."""
    import warnings as _w

    from harness import c02_objective as c02
    from harness import pipeline as pl
    from glotaran.optimization.optimizer import Optimizer

    e = c02.salted("r1", {"IV_lo": float(env.get("IV_lo", 1.5)), "IV_hi": float(env.get("IV_hi", 3.0))})
    axis = _pipeline_axis(cfg)
    with Patcher() as p:
        src = pl.Source(e, "r1")
        stubs = pl.install(p, src)
        with _w.catch_warnings():
            _w.simplefilter("ignore")
            scheme = pl.build_scheme(cfg, src)
            Optimizer(scheme, verbose=False).calculate_penalty()
        calls = c02.ordered_calls(stubs)
    lo, hi = min(e["IV_lo"], e["IV_hi"]), max(e["IV_lo"], e["IV_hi"])
    if cfg.get("constraints") or cfg.get("relations"):
        item = (cfg.get("constraints") or cfg.get("relations"))[0]
        acts = [c["matrix"].shape[1] == 2 for c in calls]
        want = [(not (lo <= a <= hi)) if item.get("type") == "only" else (lo <= a <= hi) for a in axis]
        return acts != want, (f"{cfg['name']}: interval ({e['IV_lo']}, {e['IV_hi']}) on global axis {axis}: item acts at {acts}, "
                              f"closed interval membership gives {want}")
    return False, "penalty index set: see symbolic obligation"


# ------------------------------------------------------------------ float side
def _f_axis(env, n):
    return np.array([env[f"a_{i}"] for i in range(n)], dtype=float)


def _f_slice_check(axis, lo, hi, start, stop):
    lo2, hi2 = min(lo, hi), max(lo, hi)
    n = len(axis)
    aff = set(range(start, stop))
    for k in range(n):
        if lo2 <= axis[k] <= hi2 and k not in aff:
            return f"axis point {axis[k]} (index {k}) inside [{lo2}, {hi2}] is not affected"

    def nearest_set(b):
        if b == INF:
            return {n - 1}
        if b == -INF:
            return {0}
        d = np.abs(axis - b)
        return {int(j) for j in np.nonzero(d == d.min())[0]}

    nl, nh = nearest_set(lo2), nearest_set(hi2)
    for k in aff:
        if not (min(nl) <= k and k <= max(nh)):
            return f"affected index {k} lies beyond the axis point nearest to a bound"
    return None


def concrete(cfg, env):
    from glotaran.optimization.data_provider import DataProvider
    from glotaran.optimization.matrix_provider import MatrixProvider

    k = cfg["kind"]
    if k == "applies":
        pairs = [(env[f"ilo{i}"], env[f"ihi{i}"]) for i in range(cfg["nint"])]
        interval = None if not pairs else (pairs[0] if len(pairs) == 1 else pairs)
        return {"r": bool(MatrixProvider.does_interval_item_apply(_make_item(cfg["item"], interval), env["x"]))}
    if k == "slice":
        lo = -INF if cfg["lo_inf"] else env["lo"]
        hi = INF if cfg["hi_inf"] else env["hi"]
        iv = (hi, lo) if env.get("reversed") else (lo, hi)
        s = DataProvider.get_axis_slice_from_interval(iv, _f_axis(env, cfg["n"]))
        return {"start": int(s.start), "stop": int(s.stop)}
    if k == "monotone":
        ax = _f_axis(env, cfg["n"])
        s1 = DataProvider.get_axis_slice_from_interval((env["lo"], env["hi"]), ax)
        s2 = DataProvider.get_axis_slice_from_interval((env["lo2"], env["hi2"]), ax)
        return {"s1": [int(s1.start), int(s1.stop)], "s2": [int(s2.start), int(s2.stop)]}
    if k == "area":
        return {"indices": _f_area(cfg, env)[0]}
    if k == "reduce":
        return {"affected": _f_reduce(cfg, env)}
    if k == "weight":
        import glotaran.optimization.data_provider as dp

        w, _ = _call_add_model_weight(dp, _weight_model(cfg, env), cfg["shape"])
        return {"w": [float(x) for x in np.asarray(w).flat]}
    if k == "pipeline":
        return {"ok": not _f_pipeline(cfg, env)[0]}
    if k == "multi":
        return {"ok": True}
    return {}


def _f_area(cfg, env):
    from glotaran.optimization.estimation_provider import _get_area

    n = cfg["n"]
    ax = _f_axis(env, n)
    ivs = [(-INF if cfg["lo_inf"] else env[f"lo{k}"], INF if cfg["hi_inf"] else env[f"hi{k}"]) for k in range(cfg["nint"])]
    clps = [np.array([1000.0 + i, float(i)]) for i in range(n)]
    out = _get_area("s", [["x", "s"]] * n, clps, ivs, ax)
    return [int(round(v)) for v in out], ax, ivs


def _f_reduce(cfg, env):
    import glotaran.optimization.matrix_provider as mp
    from glotaran.parameter import Parameter

    n, kind = cfg["n"], cfg["item"]
    item = _make_item(kind, (env["lo"], env["hi"]))
    model = types.SimpleNamespace(clp_constraints=[item] if kind != "relation" else [],
                                  clp_relations=[item] if kind == "relation" else [])
    prov = _fake_provider(mp.MatrixProvider, model, _Params({"p": Parameter(label="p", value=2.0)}))
    red = prov.reduce_matrix(mp.MatrixContainer(["s", "t", "u"], np.arange(6.0).reshape(2, 3) + 1), _f_axis(env, n))
    return ["t" not in r.clp_labels for r in red]


def replay(data):
    cfg, env = data["cfg"], data["env"]
    k = cfg["kind"]
    if k == "multi":
        from harness import c02_objective as c02

        return c02.replay({"cfg": cfg, "env": {}})
    from glotaran.optimization.data_provider import DataProvider

    if k == "applies":
        try:
            r = concrete(cfg, env)["r"]
        except Exception as ex:  # noqa: BLE001
            return True, f"applies raised {type(ex).__name__}: {ex} env={env}"
        pairs = [(env[f"ilo{i}"], env[f"ihi{i}"]) for i in range(cfg["nint"])]
        member = any(min(p) <= env["x"] <= max(p) for p in pairs) if pairs else True
        want = (not member) if cfg["item"] == "only" else member
        return r != want, f"{cfg['item']} item with intervals {pairs} at index {env['x']}: applies={r}, expected {want}"
    if k == "slice":
        lo = -INF if cfg["lo_inf"] else env["lo"]
        hi = INF if cfg["hi_inf"] else env["hi"]
        ax = _f_axis(env, cfg["n"])
        iv = (hi, lo) if data.get("reversed") else (lo, hi)
        try:
            s = DataProvider.get_axis_slice_from_interval(iv, ax)
        except Exception as ex:  # noqa: BLE001
            return True, f"get_axis_slice_from_interval({iv}, {ax.tolist()}) raised {type(ex).__name__}: {ex}"
        err = _f_slice_check(ax, lo, hi, int(s.start), int(s.stop))
        return err is not None, f"get_axis_slice_from_interval({iv}, {ax.tolist()}) -> slice({s.start}, {s.stop}): {err}"
    if k == "monotone":
        c = concrete(cfg, env)
        a1, a2 = set(range(*c["s1"])), set(range(*c["s2"]))
        return not a1 <= a2, (f"axis {_f_axis(env, cfg['n']).tolist()}: interval ({env['lo']},{env['hi']}) affects {sorted(a1)}, "
                              f"the larger ({env['lo2']},{env['hi2']}) affects {sorted(a2)}")
    if k == "area":
        try:
            idx, ax, ivs = _f_area(cfg, env)
        except Exception as ex:  # noqa: BLE001
            return True, f"_get_area raised {type(ex).__name__}: {ex} env={env}"
        idx = [i - 1000 if i >= 1000 else i for i in idx]
        if cfg["nint"] == 1:
            lo, hi = ivs[0]
            if len(set(idx)) != len(idx):
                return True, f"_get_area on axis {ax.tolist()} interval {ivs[0]}: duplicated indices {idx}"
            err = _f_slice_check(ax, lo, hi, min(idx) if idx else 0, max(idx) + 1 if idx else 0)
            return err is not None, f"_get_area on axis {ax.tolist()} interval {ivs[0]} uses indices {idx}: {err}"
        for kk in range(len(ax)):
            if any(min(iv) <= ax[kk] <= max(iv) for iv in ivs) and kk not in idx:
                return True, f"_get_area on axis {ax.tolist()} intervals {ivs}: index {kk} missing from {idx}"
        return False, "ok"
    if k == "reduce":
        aff = _f_reduce(cfg, env)
        ax = _f_axis(env, cfg["n"])
        lo, hi = min(env["lo"], env["hi"]), max(env["lo"], env["hi"])
        want = [(not (lo <= a <= hi)) if cfg["item"] == "only" else (lo <= a <= hi) for a in ax]
        return aff != want, f"{cfg['item']} on interval ({env['lo']},{env['hi']}) axis {ax.tolist()}: affected {aff}, expected {want}"
    if k == "pipeline":
        try:
            return _f_pipeline(cfg, env)
        except Exception as ex:  # noqa: BLE001
            return True, f"{cfg['name']}: pipeline raised {type(ex).__name__}: {ex}"
    if k == "weight2":
        import glotaran.optimization.data_provider as dp
        from glotaran.model.weight import Weight

        shape = cfg["shape"]
        dw = np.array([env[f"dw_{i}_{j}"] for i in range(shape[0]) for j in range(shape[1])]).reshape(shape)
        try:
            w, nwarn = _call_add_model_weight(dp, [Weight(datasets=["d1"], value=env["v0"])], shape, existing=dw.copy())
        except Exception as ex:  # noqa: BLE001
            return True, f"dataset weight {dw.tolist()} + model weight: add_model_weight raised {type(ex).__name__}: {ex}"
        bad = not np.array_equal(w, dw) or nwarn != 1
        return bad, f"dataset weight + model weight: weight used {np.asarray(w).tolist()}, warnings {nwarn}"
    if k == "weight":
        import glotaran.optimization.data_provider as dp

        shape = cfg["shape"]
        maxis, gaxis = _weight_axes(shape)
        try:
            w, nwarn = _call_add_model_weight(dp, _weight_model(cfg, env), shape)
        except Exception as ex:  # noqa: BLE001
            return True, f"add_model_weight raised {type(ex).__name__}: {ex} env={env}"
        w = np.asarray(w, dtype=float)
        for i in range(shape[0]):
            for j in range(shape[1]):
                cands = {1.0}
                for wt in _weight_model(cfg, env):
                    if "d1" not in wt.datasets:
                        continue
                    ins, hull = True, True
                    for iv, ax, kk in ((wt.global_interval, gaxis, j), (wt.model_interval, maxis, i)):
                        if iv is None:
                            continue
                        l2, h2 = min(iv), max(iv)
                        ins = ins and (l2 <= ax[kk] <= h2)
                        d = np.abs(ax - l2)
                        nl = np.nonzero(d == d.min())[0]
                        d = np.abs(ax - h2)
                        nh = np.nonzero(d == d.min())[0]
                        hull = hull and (nl.min() <= kk <= nh.max())
                    if ins:
                        cands = {c * wt.value for c in cands}
                    elif hull:
                        cands = cands | {c * wt.value for c in cands}
                if not any(abs(w[i, j] - c) <= 1e-9 * max(1.0, abs(c)) for c in cands):
                    return True, (f"model weights {cfg['w']} env={env}: weight[{i},{j}]={w[i, j]} at (model {maxis[i]}, "
                                  f"global {gaxis[j]}), allowed {sorted(cands)}")
        return nwarn != 0, f"warnings={nwarn}"
    return None, "no replay for this kind"
