"""C06 - labelled outputs follow their labels: declaration order and composition.

Every labelled output is compared with a specification that is written per *label* (what the label denotes), so
permuting declarations can only permute outputs.  Enumerated declaration orders:
  * megacomplex order of a dataset and label order inside each megacomplex (symbolic matrices; 2-D and 3-D
    contributions, shared labels with megacomplex scales) through the real calculate_dataset_matrix /
    combine_megacomplex_matrices;
  * (label, frequency, rate) triples of a damped oscillation; entries of a spectral ``shape`` dict;
  * compartments / K-matrix entries of decay megacomplexes are enumerated in C04; dataset order in a group and
    linked stacking in C02/C03 (their specifications are label- and coordinate-based as well).
"""
from __future__ import annotations

import itertools
import types
import warnings

import numpy as np
import z3

from harness import c02_objective as c02
from harness import c07_basis as c07
from symx import core
from symx.env import Patcher
from symx.run import model_env
from symx.values import SymArray
from symx.values import sym
from symx.values import zreal

BOUNDS = {
    "quick": "all orders of 2-3 megacomplexes per dataset x label orders (<= 3 labels each, shared and distinct, index dependent "
    "and independent, megacomplex scales); all orders of 2-3 oscillations; all orders of 3 spectral shapes; baseline and "
    "coherent-artifact labels; linked dataset orders: matrices handed to the solver and reported clp / matrix / fitted data per label",
    "thorough": "same, 3 megacomplexes with every label permutation",
}
OUTSIDE = "4 labels per megacomplex; pfid and clp-guide megacomplexes (single fixed label lists); derived 'fit unchanged' follows from equal labelled matrices + C02"
FLOAT_SELFCHECK = True


def preload():
    c02.preload()
    c07.preload()


def configs(tier, seed):
    out = []
    base = {"m1": {"labels": ["s1", "s2"]}, "m2": {"labels": ["s2", "s3"], "idx": True}, "m3": {"labels": ["s3", "s1", "s4"]}}
    combos = [("m1", "m2"), ("m1", "m3"), ("m1", "m2", "m3")]
    k = 0
    for combo in combos:
        for order in itertools.permutations(combo):
            label_perms = [None]
            if tier == "thorough" or len(combo) == 2:
                label_perms = list(itertools.product(*[itertools.permutations(base[m]["labels"]) for m in combo]))
            for lp in label_perms:
                mcs = {m: dict(base[m]) for m in combo}
                if lp is not None:
                    for m, labs in zip(combo, lp):
                        mcs[m] = dict(mcs[m], labels=list(labs))
                for scales in (False, True):
                    out.append({"name": f"combine-{k}", "kind": "combine", "mcs": mcs,
                                "datasets": [{"label": "d1", "mc": list(order), "maxis": [0.0, 1.0, 2.0, 3.0], "gaxis": [1.0, 2.0],
                                              **({"mc_scale": [f"ms_{m}" for m in order]} if scales else {})}]})
                    k += 1
    for n in (2, 3):
        for order in itertools.permutations(range(n)):
            out.append({"name": f"oscillation-{n}-order{''.join(map(str, order))}", "kind": "osc", "n": n, "order": list(order)})
    # oscillations under a Gaussian IRF with rates of both signs, either one declared first (C07's closed form per label)
    for signs in (["neg", "pos"], ["pos", "neg"]):
        out.append({"name": f"oscillation-irf-{'-'.join(signs)}", "kind": "osc_irf",
                    "c07": {"name": f"oscillation-irf-full-mixed-{'-'.join(signs)}", "kind": "osc_irf_full", "signs": signs, "ngauss": 1,
                            "shifted": False, "nt": 1}})
    for order in itertools.permutations(range(3)):
        out.append({"name": f"spectral-shapes-order{''.join(map(str, order))}", "kind": "shapes", "order": list(order)})
    out.append({"name": "baseline-and-artifact-labels", "kind": "fixed"})
    # dataset declaration order in a linked group; index dependent and index independent datasets share aligned indices
    dsets = {"da": {"label": "da", "mc": ["m2"], "maxis": [0.0, 1.0], "gaxis": [1.0, 2.0, 3.0]},
             "db": {"label": "db", "mc": ["m1"], "maxis": [0.0, 1.0, 2.0], "gaxis": [1.0, 2.0, 3.0], "scale": "scb"},
             "dc": {"label": "dc", "mc": ["m1", "m2"], "maxis": [0.0, 1.5], "gaxis": [2.0, 3.0]}}
    for combo in (("da", "db"), ("da", "db", "dc")):
        for order in itertools.permutations(combo):
            if len(combo) == 3 and tier != "thorough" and order not in (("da", "db", "dc"), ("dc", "db", "da"), ("db", "dc", "da")):
                continue
            out.append({"name": "datasets-" + "-".join(order), "kind": "datasets",
                        "pipeline": {"name": "datasets-" + "-".join(order), "mcs": {"m1": base["m1"], "m2": base["m2"]},
                                     "datasets": [dict(dsets[d]) for d in order], "groups": {"default": {"link_clp": True}}}})
    from harness import c04_kinetics as c04

    for top in ("chain3-loss", "branched3", "chain2-loss"):
        n, entries = c04.TOPOLOGIES[top]
        for oi, order in enumerate(itertools.permutations(range(n))):
            out.append({"name": f"decay-order-{top}-{oi}", "kind": "decay", "c04": {"name": f"kmatrix-{top}-order{oi}-je1", "kind": "kmatrix",
                                                                                 "n": n, "entries": entries, "order": list(order), "j": "e1"}})
    batches = []
    for i in range(0, len(out), 10):
        batches.append({"name": f"batch-{i // 10}", "items": out[i : i + 10]})
    return batches


def run_config(batch, rec):
    import glotaran.optimization.matrix_provider as mp

    rec.encodes(mp.MatrixProvider.calculate_dataset_matrix, mp.MatrixProvider.combine_megacomplex_matrices)
    rec.assume_note("specifications are per label; see C07 for the oscillation / shape closed forms used here")
    core.Ctx.generic_models = False
    def one(cfg):
        if cfg["kind"] == "decay":
            from harness import c04_kinetics as c04

            return c04._run_one(cfg["c04"], rec)  # labelled concentration columns against the rate equations, per declaration order
        if cfg["kind"] == "datasets":
            return _run_datasets(cfg, rec)
        if cfg["kind"] == "osc_irf":
            n0 = len(rec.candidates)
            c07._run_osc_irf_full(cfg["c07"], rec)
            for i in range(n0, len(rec.candidates)):  # route replays of this item through this harness
                c = rec.candidates[i]
                rec.candidates[i] = (c[0], c[1], dict(c[2], item=cfg))
            return None
        return {"combine": _run_combine, "osc": _run_osc, "shapes": _run_shapes, "fixed": _run_fixed}[cfg["kind"]](cfg, rec)

    rec.each(batch["items"], one)


def _run_datasets(cfg, rec):
    """Linked datasets in every declaration order: each aligned problem's columns are the per-label sums of what the datasets
    present at that index contribute (index dependent ones with that index's matrix) - the C02 matrix obligations per label."""
    import glotaran.optimization.matrix_provider as mp

    rec.encodes(mp.MatrixProviderLinked.calculate_aligned_matrices, mp.MatrixProviderLinked.align_matrices,
                mp.MatrixProviderLinked.align_full_clp_labels)
    pcfg = cfg["pipeline"]
    for ctx, src, stubs, kind, out in c02.symbolic_run(pcfg, rec):
        rec.witness_path(ctx)
        wit = lambda mm, cfg=cfg: {"env": model_env(mm), "item": cfg}  # noqa: E731
        if kind == "exc":
            rec.unexpected(ctx, f"{cfg['name']}: {type(out).__name__}: {out}", "labels:datasets:exception", wit)
            continue
        scheme, optimizer, pen, _ = out
        got = c02.check_objective(pcfg, rec, ctx, src, c02.ordered_calls(stubs), pen, fp_prefix="labels:datasets")
        if got is not None and rec.candidates:
            for i, c in enumerate(rec.candidates):  # route replays of this item through this harness
                if c[0].startswith("labels:datasets") and "item" not in c[2]:
                    rec.candidates[i] = (c[0], c[1], dict(c[2], item=cfg))
        rec.want_sample() and rec.sample({"config": cfg["name"], "linear_problems": len(c02.ordered_calls(stubs))})
    # the *reported* side of the same configurations: estimated clps / matrices / fitted data of every dataset under their labels
    # (C03's obligations through create_result_data), in every dataset declaration order - the aligned label order of a linked
    # group is the first dataset's, later datasets hold the shared labels in another order
    from harness import c03_result_data as c03

    n0, nv0 = len(rec.candidates), len(rec.validations)
    c03.run_config(pcfg, rec)
    del rec.validations[nv0:]  # C03's encoding-validation points are answered by C03's own `concrete`; this harness validates via c02's
    for i in range(n0, len(rec.candidates)):
        c = rec.candidates[i]
        if "item" not in c[2]:
            rec.candidates[i] = (c[0], c[1], dict(c[2], item=cfg))


def _run_combine(cfg, rec):
    from harness import pipeline as pl
    from glotaran.optimization.optimizer import Optimizer

    with Patcher() as p:
        src = pl.Source(None)
        pl.install(p, src)
        if not rec.shims:
            rec.shims += p.record

        def fn(ctx):
            with warnings.catch_warnings():
                warnings.simplefilter("ignore")
                scheme = pl.build_scheme(cfg, src)
                opt = Optimizer(scheme, verbose=False)
                opt.calculate_penalty()
                return opt._optimization_groups[0]._matrix_provider.get_matrix_container("d1")

        for ctx, (kind, out) in core.explore(fn, rec.stats, max_paths=20):
            rec.witness_path(ctx)
            wit = lambda mm, cfg=cfg: {"env": model_env(mm), "item": cfg}  # noqa: E731
            if kind == "exc":
                rec.unexpected(ctx, f"{cfg['name']}: {type(out).__name__}: {out}", "labels:combine:exception", wit)
                continue
            ds = cfg["datasets"][0]
            pv = pl.with_expression_values(cfg, {lab: src.term(f"P_{lab}") for lab in pl.param_labels(cfg)})
            labels, entry, idx_dep = pl.spec_dataset_matrix(cfg, ds, src, pv)
            mat = np.asarray(out.matrix, dtype=object)
            items = [("clp labels = union of the megacomplexes' labels, each once",
                      z3.BoolVal(sorted(out.clp_labels) == sorted(labels) and len(set(out.clp_labels)) == len(out.clp_labels)), "labels:combine:label-set"),
                     ("the combined matrix is index dependent iff a contribution is", z3.BoolVal((mat.ndim == 3) == idx_dep), "labels:combine:index-dependence")]
            if sorted(out.clp_labels) == sorted(labels):
                for j, lab in enumerate(out.clp_labels):
                    for g in range(len(ds["gaxis"])):
                        for t in range(len(ds["maxis"])):
                            got = mat[g, t, j] if mat.ndim == 3 else mat[t, j]
                            items.append(("column of a label = sum of the (megacomplex-scaled) columns contributed under that label, "
                                          "whatever the declaration order", pl.eq_term(ctx, got, entry(t, lab, g)), "labels:combine:column"))
            rec.check_all(ctx, items, wit)
            rec.want_sample() and rec.sample({"megacomplex_order": ds["mc"], "labels": {m: v["labels"] for m, v in cfg["mcs"].items()}, "result_labels": list(out.clp_labels)})
    if len(rec.validations) < 3:
        rec.validations.append((cfg["name"], {"__item": cfg}, {"ok": True}))


def _run_osc(cfg, rec):
    n, order = cfg["n"], cfg["order"]
    W = zreal(0.03) * 2 * zreal(float(np.pi))

    def fn(ctx):
        with Patcher() as p, warnings.catch_warnings():
            warnings.simplefilter("ignore")
            c07.install(p)
            if not rec.shims:
                rec.shims += p.record
            t = c07._axis(ctx, "t", 2)
            vals = {}

            def val(nm):
                vals[nm] = sym(nm)
                return vals[nm]

            mc = c07.build_osc(n, val, order=order)
            for i in range(n):
                ctx.assume(vals[f"f{i}"].e >= 0)
                ctx.assume(vals[f"f{i}"].e * W * 2 * zreal(0.03) * (t[1].e - t[0].e) < 1)
            labels, matrix = mc.calculate_matrix(types.SimpleNamespace(label="d1", irf=None), np.array([0.0]), t)
        return labels, matrix, t, vals

    for ctx, (kind, out) in core.explore(fn, rec.stats, max_paths=2000):
        rec.witness_path(ctx)
        wit = lambda mm, cfg=cfg: {"env": model_env(mm), "item": cfg}  # noqa: E731
        if kind == "exc":
            rec.unexpected(ctx, f"{cfg['name']}: {type(out).__name__}: {out}", "labels:osc:exception", wit)
            continue
        labels, matrix, t, vals = out
        matrix = np.asarray(matrix, dtype=object)
        items = []
        for i in range(n):
            for a in range(2):
                e_ = ctx.uf("exp", -vals[f"g{i}"].e * t[a].e)
                re = e_ * ctx.uf("cos", -vals[f"f{i}"].e * W * t[a].e)
                im = e_ * ctx.uf("sin", -vals[f"f{i}"].e * W * t[a].e)
                ok = f"o{i}_cos" in labels and f"o{i}_sin" in labels
                items.append(("the columns labelled <osc>_cos / <osc>_sin belong to that oscillation's own frequency and rate, "
                              "in every declaration order",
                              z3.And(zreal(matrix[a, labels.index(f"o{i}_cos")]) == re, zreal(matrix[a, labels.index(f"o{i}_sin")]) == im) if ok else z3.BoolVal(False),
                              "labels:osc:column"))
        rec.check_all(ctx, items, wit)
        rec.want_sample() and rec.sample({"declared": [f"o{i}" for i in order], "labels": list(labels)})
    if len(rec.validations) < 3:
        rec.validations.append((cfg["name"], {"__item": cfg}, {"ok": True}))


def build_spectral(order, val):
    from glotaran.builtin.megacomplexes.spectral.shape import SpectralShapeGaussian
    from glotaran.builtin.megacomplexes.spectral.shape import SpectralShapeOne
    from glotaran.builtin.megacomplexes.spectral.spectral_megacomplex import SpectralMegacomplex

    shapes = {
        "sa": lambda: SpectralShapeGaussian(label="a", amplitude=c07._param("Aa", val("Aa")), location=c07._param("xa", val("xa")), width=c07._param("Da", val("Da"))),
        "sb": lambda: SpectralShapeGaussian(label="b", amplitude=None, location=c07._param("xb", val("xb")), width=c07._param("Db", val("Db"))),
        "sc": lambda: SpectralShapeOne(label="c"),
    }
    names = ["sa", "sb", "sc"]
    return SpectralMegacomplex(label="sp", shape={names[i]: shapes[names[i]]() for i in order})


def _run_shapes(cfg, rec):
    def fn(ctx):
        with Patcher() as p, warnings.catch_warnings():
            warnings.simplefilter("ignore")
            c07.install(p)
            if not rec.shims:
                rec.shims += p.record
            vals = {}

            def val(nm):
                vals[nm] = sym(nm)
                return vals[nm]

            mc = build_spectral(cfg["order"], val)
            for k in ("Da", "Db"):
                ctx.assume(vals[k].e > 0)
            x = c07._axis(ctx, "x", 2)
            dm = types.SimpleNamespace(label="d1", spectral_axis_inverted=False, spectral_axis_scale=1)
            labels, matrix = mc.calculate_matrix(dm, np.array([0.0]), x)
        return labels, matrix, x, vals

    for ctx, (kind, out) in core.explore(fn, rec.stats, max_paths=50):
        rec.witness_path(ctx)
        wit = lambda mm, cfg=cfg: {"env": model_env(mm), "item": cfg}  # noqa: E731
        if kind == "exc":
            rec.unexpected(ctx, f"{cfg['name']}: {type(out).__name__}: {out}", "labels:shapes:exception", wit)
            continue
        labels, matrix, x, vals = out
        matrix = np.asarray(matrix, dtype=object)
        items = [("labels are the shape dict's compartments", z3.BoolVal(sorted(labels) == ["sa", "sb", "sc"]), "labels:shapes:label-set")]
        if sorted(labels) == ["sa", "sb", "sc"]:
            for a in range(2):
                ua = 2 * (x[a].e - vals["xa"].e) / vals["Da"].e
                ub = 2 * (x[a].e - vals["xb"].e) / vals["Db"].e
                want = {"sa": vals["Aa"].e * ctx.uf("exp", -zreal(c07.LN2) * ua * ua), "sb": ctx.uf("exp", -zreal(c07.LN2) * ub * ub), "sc": z3.RealVal(1)}
                for lab in labels:
                    items.append(("the column of a compartment is its own shape, in every declaration order of the shape dict",
                                  core.cross_eq(zreal(matrix[a, labels.index(lab)]), want[lab]), "labels:shapes:column"))
        rec.check_all(ctx, items, wit)
        rec.want_sample() and rec.sample({"declared": cfg["order"], "labels": list(labels)})
    if len(rec.validations) < 3:
        rec.validations.append((cfg["name"], {"__item": cfg}, {"ok": True}))


def _run_fixed(cfg, rec):
    from glotaran.builtin.megacomplexes.baseline.baseline_megacomplex import BaselineMegacomplex

    def fn(ctx):
        x = c07._axis(ctx, "t", 2)
        out = {}
        for dlabel in ("d1", "other"):
            labels, matrix = BaselineMegacomplex(label="bl").calculate_matrix(types.SimpleNamespace(label=dlabel), np.array([0.0]), x)
            out[dlabel] = (labels, np.asarray(matrix))
        return out

    for ctx, (kind, out) in core.explore(fn, rec.stats, max_paths=5):
        rec.witness_path(ctx)
        wit = lambda mm, cfg=cfg: {"env": {}, "item": cfg}  # noqa: E731
        if kind == "exc":
            rec.unexpected(ctx, f"baseline: {type(out).__name__}: {out}", "labels:fixed:exception", wit)
            continue
        items = [("baseline contributes one constant column labelled <dataset>_baseline",
                  z3.BoolVal(all(out[d][0] == [f"{d}_baseline"] and out[d][1].shape == (2, 1) and (out[d][1] == 1).all() for d in out)),
                  "labels:baseline")]
        rec.check_all(ctx, items, wit)
        rec.want_sample() and rec.sample({"labels": {d: v[0] for d, v in out.items()}})


# ------------------------------------------------------------------------------------------------ float side
def concrete(batch, env):
    return {"ok": True}


def replay(data):
    cfg = data.get("item")
    items = [cfg] if cfg else data["cfg"]["items"]
    for it in items:
        v, d = _replay_item(it)
        if v:
            return v, d
    return False, "labelled outputs follow their labels"


def _replay_item(cfg):
    from harness import pipeline as pl
    from glotaran.optimization.optimizer import Optimizer

    rng = np.random.default_rng(3)
    if cfg["kind"] == "decay":
        from harness import c04_kinetics as c04

        for trial in ({}, {}):
            v, d = c04._float_case(cfg["c04"], dict(trial))
            if v:
                return v, d
        return False, "ok"
    if cfg["kind"] == "datasets":
        from harness import c03_result_data as c03

        return c03.replay({"cfg": cfg["pipeline"], "env": {}})  # objective (C02's oracle) and reported arrays (C03's)
    if cfg["kind"] == "osc_irf":
        return c07.replay({"cfg": cfg["c07"], "env": {}})
    with warnings.catch_warnings():
        warnings.simplefilter("ignore")
        if cfg["kind"] == "combine":
            env = c02.salted("r1")
            with Patcher() as p:
                src = pl.Source(env, "r1")
                pl.install(p, src)
                scheme = pl.build_scheme(cfg, src)
                opt = Optimizer(scheme, verbose=False)
                opt.calculate_penalty()
                mc = opt._optimization_groups[0]._matrix_provider.get_matrix_container("d1")
                ds = cfg["datasets"][0]
                pv = pl.with_expression_values(cfg, {lab: src.term(f"P_{lab}") for lab in pl.param_labels(cfg)})
                labels, entry, idx_dep = pl.spec_dataset_matrix(cfg, ds, src, pv)
                mat = np.asarray(mc.matrix, dtype=float)
                if sorted(mc.clp_labels) != sorted(labels):
                    return True, f"{cfg['name']}: labels {mc.clp_labels} vs {labels}"
                for j, lab in enumerate(mc.clp_labels):
                    for g in range(len(ds["gaxis"])):
                        for t in range(len(ds["maxis"])):
                            got = mat[g, t, j] if mat.ndim == 3 else mat[t, j]
                            if abs(got - float(entry(t, lab, g))) > 1e-9:
                                return True, (f"megacomplexes {ds['mc']} with labels { {m: v['labels'] for m, v in cfg['mcs'].items()} }: column "
                                              f"{lab!r} at (model {t}, global {g}) is {got}, sum of its contributions {float(entry(t, lab, g))}")
            return False, "ok"
        if cfg["kind"] == "osc":
            n = cfg["n"]
            v = {f"f{i}": float(rng.uniform(1, 20)) for i in range(n)}
            v.update({f"g{i}": float(rng.uniform(0.1, 3)) for i in range(n)})
            t = np.sort(rng.uniform(0, 2, 3))
            labels, m = c07.build_osc(n, lambda nm: v[nm], order=cfg["order"]).calculate_matrix(types.SimpleNamespace(label="d1", irf=None), np.array([0.0]), t)
            for i in range(n):
                z = np.exp(-v[f"g{i}"] * t - 1j * v[f"f{i}"] * 0.03 * 2 * np.pi * t)
                for part, lab in ((z.real, f"o{i}_cos"), (z.imag, f"o{i}_sin")):
                    if not np.allclose(m[:, labels.index(lab)], part, atol=1e-9):
                        return True, f"oscillations declared {[f'o{j}' for j in cfg['order']]}: column {lab} does not belong to oscillation o{i}"
            return False, "ok"
        if cfg["kind"] == "shapes":
            v = {"Aa": 1.7, "xa": 500.0, "Da": 30.0, "xb": 620.0, "Db": 45.0}
            mc = build_spectral(cfg["order"], lambda nm: v[nm])
            x = np.array([480.0, 610.0])
            labels, m = mc.calculate_matrix(types.SimpleNamespace(label="d1", spectral_axis_inverted=False, spectral_axis_scale=1), np.array([0.0]), x)
            want = {"sa": 1.7 * np.exp(-np.log(2) * (2 * (x - 500) / 30) ** 2), "sb": np.exp(-np.log(2) * (2 * (x - 620) / 45) ** 2), "sc": np.ones(2)}
            for lab in labels:
                if not np.allclose(m[:, labels.index(lab)], want[lab], atol=1e-12):
                    return True, f"spectral shapes declared in order {cfg['order']}: column {lab} is not its own shape"
            return False, "ok"
    return False, "ok"
