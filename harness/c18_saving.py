"""C18 - saving never destroys existing files unless asked (overwrite protection part).

The real save_model / save_parameters / save_scheme / save_result / save_dataset and protect_from_overwrite run
against a *symbolic file system*: whether the target is a file, a directory, non-empty, whether the parent is a
file - and allow_overwrite - are solver booleans (forks); the format is explicit-known / explicit-unknown /
inferred-known / inferred-unknown / no extension; the plugin writes, or writes and then raises.
Query on every path: exists AND NOT allow_overwrite  =>  FileExistsError AND no plugin write AND no mkdir of the target.
(The run-numbering part of C18 is decided in harness c18 'runs' configurations, see DESIGN.md.)
"""
from __future__ import annotations

import os
import warnings

import z3

from symx import core
from symx.env import Patcher
from symx.run import model_env
from symx.values import SymBool

BOUNDS = {
    "quick": "5 save functions x 5 format situations x plugin {writes, writes then raises}; target state (is file / is "
    "directory / directory non-empty / parent is a file) and allow_overwrite symbolic booleans; run numbering: see runs-*",
    "thorough": "same (the space is finite and fully enumerated by the solver-guided forks)",
}
OUTSIDE = ("byte identity of files (the shim has no byte content: the claim is that no write call and no mkdir of the target "
           "is reached); concurrent writers; names with glob metacharacters; more than 9999 runs")


def preload():
    import glotaran.plugin_system.data_io_registration  # noqa: F401
    import glotaran.plugin_system.project_io_registration  # noqa: F401
    import glotaran.testing.plugin_system  # noqa: F401


SAVES = ["save_model", "save_parameters", "save_scheme", "save_result", "save_dataset"]
FORMATS = ["explicit-known", "explicit-unknown", "inferred-known", "inferred-unknown", "no-extension"]


def configs(tier, seed):
    out = []
    for fn in SAVES:
        for fmt in FORMATS:
            for fail in (False, True):
                out.append({"name": f"{fn}-{fmt}-{'plugin-raises' if fail else 'plugin-writes'}", "kind": "overwrite", "fn": fn,
                            "fmt": fmt, "fail": fail})
    out.append({"name": "protect-direct", "kind": "protect"})
    batches = []
    for i in range(0, len(out), 6):
        batches.append({"name": f"batch-{i // 6}", "items": out[i : i + 6]})
    return batches


class SymFS:
    """Answers of the file system about one target path, as solver booleans."""

    def __init__(self, ctx, target):
        self.ctx = ctx
        self.target = target
        self.is_file = SymBool(z3.Bool("target_is_file"))
        self.is_dir = SymBool(z3.Bool("target_is_dir"))
        self.nonempty = SymBool(z3.Bool("dir_nonempty"))
        self.parent_is_file = SymBool(z3.Bool("parent_is_file"))
        ctx.assume(z3.Not(z3.And(self.is_file.e, self.is_dir.e)))
        ctx.assume(z3.Implies(self.nonempty.e, self.is_dir.e))
        ctx.assume(z3.Implies(self.parent_is_file.e, z3.And(z3.Not(self.is_file.e), z3.Not(self.is_dir.e))))
        self.mkdirs = []
        self.writes = []


def _fake_path_class(fs: SymFS):
    import pathlib

    class FakePath:
        def __init__(self, p):
            self._p = pathlib.PurePosixPath(os.fspath(p) if not isinstance(p, FakePath) else p._p)

        def resolve(self):
            return FakePath(self._p if self._p.is_absolute() else pathlib.PurePosixPath("/cwd") / self._p)

        @property
        def parent(self):
            return FakePath(self._p.parent)

        def _is_target(self):
            return self._p.name == pathlib.PurePosixPath(fs.target).name

        def is_file(self):
            if self._is_target():
                return fs.is_file
            if pathlib.PurePosixPath(fs.target).parent.name == self._p.name:
                return fs.parent_is_file
            return False

        def is_dir(self):
            return fs.is_dir if self._is_target() else True

        def mkdir(self, parents=False, exist_ok=False):
            fs.mkdirs.append(str(self._p))

        def as_posix(self):
            return self._p.as_posix()

        def __fspath__(self):
            return str(self._p)

        def __str__(self):
            return str(self._p)

        def __repr__(self):
            return f"FakePath({str(self._p)!r})"

    return FakePath


def _run_item(cfg, rec):
    import glotaran.plugin_system.io_plugin_utils as iu
    from glotaran.io.interface import DataIoInterface
    from glotaran.io.interface import ProjectIoInterface
    from glotaran.plugin_system import data_io_registration as dr
    from glotaran.plugin_system import project_io_registration as pr
    from glotaran.testing import plugin_system as tps

    fnname, fmt, fail = cfg["fn"], cfg["fmt"], cfg["fail"]
    target = {"explicit-known": "/work/out/target.dat", "explicit-unknown": "/work/out/target.dat",
              "inferred-known": "/work/out/target.vfmt", "inferred-unknown": "/work/out/target.zzz",
              "no-extension": "/work/out/target"}[fmt]
    format_name = {"explicit-known": "vfmt", "explicit-unknown": "nope"}.get(fmt)

    def fn(ctx):
        fs = SymFS(ctx, target)
        allow = SymBool(z3.Bool("allow_overwrite"))
        log = fs.writes

        def writer(self, *a, **kw):
            log.append("write")
            if fail:
                raise OSError("disk full (injected)")

        data_cls = type("VData", (DataIoInterface,), {"__module__": "verif.c18.data", "save_dataset": writer})
        proj_cls = type("VProj", (ProjectIoInterface,), {"__module__": "verif.c18.proj", "save_model": writer,
                                                         "save_parameters": writer, "save_scheme": writer,
                                                         "save_result": lambda self, *a, **kw: (writer(self), [])[1]})
        with Patcher() as p, warnings.catch_warnings():
            warnings.simplefilter("ignore")
            p.set(iu, "Path", _fake_path_class(fs), "pathlib.Path in io_plugin_utils -> symbolic file system")
            fake_os = type("FakeOs", (), {"__getattr__": lambda self, n: getattr(os, n),
                                          "listdir": lambda self, d: ["x"] if fs.nonempty else []})()
            p.set(iu, "os", fake_os, "os.listdir in io_plugin_utils -> symbolic directory content")
            if not rec.shims:
                rec.shims += p.record
            with tps.monkeypatch_plugin_registry_data_io(test_data_io={"vfmt": data_cls("vfmt")}, create_new_registry=True), \
                    tps.monkeypatch_plugin_registry_project_io(test_project_io={"vfmt": proj_cls("vfmt")}, create_new_registry=True):
                obj = _dummy(fnname)
                try:
                    if fnname == "save_dataset":
                        dr.save_dataset(obj, target, format_name, allow_overwrite=allow)
                    else:
                        getattr(pr, fnname)(obj, target, format_name, allow_overwrite=allow)
                    exc = None
                except Exception as ex:  # noqa: BLE001
                    exc = ex
        return fs, allow, exc

    for ctx, (kind, out) in core.explore(fn, rec.stats, max_paths=200):
        rec.witness_path(ctx)
        wit = lambda mm, cfg=cfg: {"env": {str(d): bool(mm[d]) for d in mm.decls() if z3.is_bool(mm[d])}, "item": cfg}  # noqa: E731
        if kind == "exc":
            rec.unexpected(ctx, f"{cfg['name']}: {type(out).__name__}: {out}", "overwrite:exception", wit)
            continue
        fs, allow, exc = out
        exists = z3.Or(fs.is_file.e, z3.And(fs.is_dir.e, fs.nonempty.e))
        protected = z3.And(exists, z3.Not(allow.e))
        refused = isinstance(exc, FileExistsError)
        wrote = bool(fs.writes)
        target_mkdir = any(m.rstrip("/").endswith(os.path.basename(target)) and os.path.basename(target) == os.path.basename(m)
                           for m in fs.mkdirs)
        items = [
            ("target exists (file, or non-empty folder) and allow_overwrite not set  =>  FileExistsError, nothing written, target not created",
             z3.Implies(protected, z3.BoolVal(refused and not wrote and not target_mkdir)), f"overwrite:{cfg['fn']}:not-protected"),
            ("FileExistsError only when the target exists and allow_overwrite is not set",
             z3.Implies(z3.BoolVal(refused), protected), f"overwrite:{cfg['fn']}:spurious-refusal"),
        ]
        known = fmt in ("explicit-known", "inferred-known")
        if known:
            items.append(("when saving is permitted the resolved plugin is called exactly once (its own failure propagates)",
                          z3.Implies(z3.Not(protected), z3.BoolVal(len(fs.writes) == 1 and (isinstance(exc, OSError) if fail else exc is None))),
                          f"overwrite:{cfg['fn']}:dispatch"))
        else:
            items.append(("unknown / undeterminable format: ValueError, nothing written",
                          z3.Implies(z3.Not(protected), z3.BoolVal(isinstance(exc, ValueError) and not wrote)),
                          f"overwrite:{cfg['fn']}:unknown-format"))
        rec.check_all(ctx, items, wit)
        rec.sample({"item": cfg["name"], "pc": [str(c) for c in ctx.pc], "raised": type(exc).__name__ if exc else None,
                    "plugin_writes": len(fs.writes), "mkdirs": fs.mkdirs})
    if len(rec.validations) < 3:
        rec.validations.append((cfg["name"], {"__item": cfg}, {"ok": True}))


def _dummy(fnname):
    import numpy as np
    import xarray as xr

    if fnname == "save_dataset":
        return xr.Dataset({"data": (("a", "b"), np.zeros((1, 1)))})

    class Obj:
        source_path = None

    return Obj()


def _run_protect(rec):
    import glotaran.plugin_system.io_plugin_utils as iu

    target = "/work/out/target.dat"

    def fn(ctx):
        fs = SymFS(ctx, target)
        allow = SymBool(z3.Bool("allow_overwrite"))
        with Patcher() as p:
            p.set(iu, "Path", _fake_path_class(fs), "pathlib.Path -> symbolic file system")
            fake_os = type("FakeOs", (), {"__getattr__": lambda self, n: getattr(os, n),
                                          "listdir": lambda self, d: ["x"] if fs.nonempty else []})()
            p.set(iu, "os", fake_os, "os.listdir -> symbolic")
            try:
                iu.protect_from_overwrite(target, allow_overwrite=allow)
                exc = None
            except Exception as ex:  # noqa: BLE001
                exc = ex
        return fs, allow, exc

    for ctx, (kind, out) in core.explore(fn, rec.stats, max_paths=100):
        rec.witness_path(ctx)
        wit = lambda mm: {"env": {str(d): bool(mm[d]) for d in mm.decls() if z3.is_bool(mm[d])}, "item": {"name": "protect-direct", "kind": "protect"}}  # noqa: E731
        if kind == "exc":
            rec.unexpected(ctx, f"protect: {type(out).__name__}: {out}", "overwrite:exception", wit)
            continue
        fs, allow, exc = out
        exists = z3.Or(fs.is_file.e, z3.And(fs.is_dir.e, fs.nonempty.e))
        protected = z3.And(exists, z3.Not(allow.e))
        items = [("protect_from_overwrite raises FileExistsError iff target exists (file / non-empty folder) and not allow_overwrite",
                  protected == z3.BoolVal(isinstance(exc, FileExistsError)), "overwrite:protect:iff"),
                 ("protect_from_overwrite never creates the target itself", z3.BoolVal(all(not m.endswith("target.dat") for m in fs.mkdirs)),
                  "overwrite:protect:mkdir-target")]
        rec.check_all(ctx, items, wit)
        rec.sample({"pc": [str(c) for c in ctx.pc], "raised": type(exc).__name__ if exc else None, "mkdirs": fs.mkdirs})


def run_config(batch, rec):
    import glotaran.plugin_system.io_plugin_utils as iu
    from glotaran.plugin_system import data_io_registration as dr
    from glotaran.plugin_system import project_io_registration as pr

    rec.encodes(iu.protect_from_overwrite, iu.infer_file_format, pr.save_model, pr.save_parameters, pr.save_scheme, pr.save_result,
                dr.save_dataset)
    rec.assume_note("file system answers are solver booleans constrained only by consistency (not file and directory at once; "
                    "non-empty implies directory; parent-is-a-file implies target absent)")
    for cfg in batch["items"]:
        if cfg["kind"] == "protect":
            _run_protect(rec)
        else:
            _run_item(cfg, rec)


# ------------------------------------------------------------------------------------------------ float side: real FS replay
def concrete(batch, env):
    return {"ok": True}


def replay(data):
    """Replay on a real temporary directory with the real pathlib / os."""
    import tempfile
    from pathlib import Path

    from glotaran.io.interface import DataIoInterface
    from glotaran.io.interface import ProjectIoInterface
    from glotaran.plugin_system import data_io_registration as dr
    from glotaran.plugin_system import io_plugin_utils as iu
    from glotaran.plugin_system import project_io_registration as pr
    from glotaran.testing import plugin_system as tps

    cfg = data.get("item") or data["cfg"]["items"][0]
    env = data.get("env", {})
    with tempfile.TemporaryDirectory() as d:
        base = Path(d) / "out"
        name = {"explicit-known": "target.dat", "explicit-unknown": "target.dat", "inferred-known": "target.vfmt",
                "inferred-unknown": "target.zzz", "no-extension": "target"}.get(cfg.get("fmt"), "target.dat")
        target = base / name
        if env.get("parent_is_file"):
            base.parent.mkdir(parents=True, exist_ok=True)
            base.write_text("i am a file")
        else:
            base.mkdir(parents=True)
            if env.get("target_is_file"):
                target.write_text("precious")
            elif env.get("target_is_dir"):
                target.mkdir()
                if env.get("dir_nonempty"):
                    (target / "x").write_text("precious")
        allow = bool(env.get("allow_overwrite"))
        before = {str(p): (p.read_bytes() if p.is_file() else None) for p in Path(d).rglob("*")}
        writes = []

        def writer(self, *a, **kw):
            writes.append(1)
            if cfg.get("fail"):
                raise OSError("disk full (injected)")

        data_cls = type("VData", (DataIoInterface,), {"__module__": "verif.c18.data", "save_dataset": writer})
        proj_cls = type("VProj", (ProjectIoInterface,), {"__module__": "verif.c18.proj", "save_model": writer, "save_parameters": writer,
                                                         "save_scheme": writer, "save_result": lambda self, *a, **kw: (writer(self), [])[1]})
        fmt = {"explicit-known": "vfmt", "explicit-unknown": "nope"}.get(cfg.get("fmt"))
        exc = None
        with tps.monkeypatch_plugin_registry_data_io(test_data_io={"vfmt": data_cls("vfmt")}, create_new_registry=True), \
                tps.monkeypatch_plugin_registry_project_io(test_project_io={"vfmt": proj_cls("vfmt")}, create_new_registry=True):
            try:
                if cfg["kind"] == "protect":
                    iu.protect_from_overwrite(target, allow_overwrite=allow)
                elif cfg["fn"] == "save_dataset":
                    dr.save_dataset(_dummy("save_dataset"), target, fmt, allow_overwrite=allow)
                else:
                    getattr(pr, cfg["fn"])(_dummy(cfg["fn"]), target, fmt, allow_overwrite=allow)
            except Exception as ex:  # noqa: BLE001
                exc = ex
        exists = bool(env.get("target_is_file")) or (bool(env.get("target_is_dir")) and bool(env.get("dir_nonempty")))
        after = {str(p): (p.read_bytes() if p.is_file() else None) for p in Path(d).rglob("*")}
        state = f"{cfg.get('name')}: state {env}"
        if exists and not allow:
            if not isinstance(exc, FileExistsError) or writes or any(before[k] != after.get(k) for k in before):
                return True, f"{state}: expected FileExistsError with nothing written, got {exc!r}, plugin writes={len(writes)}"
        elif isinstance(exc, FileExistsError):
            return True, f"{state}: spurious FileExistsError"
        return False, f"{state}: behaves as documented ({exc!r})"
