#!/usr/bin/env python3
"""Regenerate the measured-cost table of DESIGN.md (between the cost-table markers) from evidence/*.json (quick tier, as
committed) and from a log of one sequential thorough sweep (bin/regen thorough > log)."""
import json, os, re, sys

ids = ["C01", "C02", "C03", "C04", "C05", "C06", "C07", "C08", "C09", "C10", "C11", "C12", "C13", "C14", "C15", "C18", "C19"]
thorough = {}
for path in sys.argv[1:]:
    for ln in open(path):
        m = re.match(r"(C\d\d) rc=(\d+) wall=(\d+)s \[C\d\d/thorough\] configs=(\d+) paths=(\d+) obligations=(\d+) .*?inconclusive=(\d+)", ln)
        if m:
            thorough[m.group(1)] = (f"{m.group(3)} s; {m.group(4)} cfg, {m.group(5)} paths, {m.group(6)} obligations, {m.group(7)} inconclusive"
                                    + ("" if m.group(2) == "0" else f" (rc {m.group(2)})"))
rows = []
tot = 0.0
for i in ids:
    e = json.load(open(f"/verif/evidence/{i}.json"))
    c = e["coverage"]
    q = c["queries"]
    assert e["tier"] == "quick", (i, e["tier"])
    tot += e["wall_s"]
    rows.append(f"| {i} | {e['wall_s']:.0f} s | {c['configurations']} | {c['states']} | {c['obligations']} | "
                f"{q['branch_feasibility']} / {q['obligation_unsat']} / {c['obligations_closed_by_normal_form']} | "
                f"{c['traces_validated_against_impl']} | {thorough.get(i, 'not run in the last sweep')} |")
table = ("| id | quick wall | configurations | paths (states) | obligations | queries: branch feasibility / obligation unsat / closed by normal form | "
         "validated against float code | thorough (one sequential sweep) |\n|----|-----------|----------------|----------------|-------------|"
         "---------------------------|-------------------|----------|\n" + "\n".join(rows) + f"\n\nSum of the quick walls: {tot:.0f} s.")
p = "/verif/DESIGN.md"
s = open(p).read()
a, b = s.index("<!-- cost-table:begin -->"), s.index("<!-- cost-table:end -->")
open(p, "w").write(s[:a] + "<!-- cost-table:begin -->\n" + table + "\n" + s[b:])
print("ok", round(tot))
