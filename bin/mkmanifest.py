#!/usr/bin/env python3
"""Regenerate /verif/MANIFEST.json from the table below (keeps it schema-valid)."""
import json
import os

VERIF = os.path.dirname(os.path.dirname(os.path.abspath(__file__)))

NA = {
    "C16": "parameter-file round trips are decided by pandas/openpyxl/odfpy/ruamel byte parsers (compiled or "
    "very large third-party code working on bytes); they cannot be executed on solver terms and stubbing them "
    "by contract would assume the property (DESIGN.md section 7)",
    "C17": "persistence through yaml emit/parse, netCDF4/HDF5 and numpy.savetxt on real directory trees; "
    "bit-equality after loading is a statement about those libraries' byte formats, outside what a solver can "
    "encode from this code (DESIGN.md section 7)",
    "C20": "the quantifier ranges over model programs and attrs/typing reflection of item classes; classes and "
    "annotations are not SMT values, what remains would be enumeration of concrete specifications, i.e. a "
    "different technique (DESIGN.md section 7)",
}

COMMON_NOTE = (
    "Exact real arithmetic (no floating-point claims); bounded shapes as listed in the evidence file; trusted: "
    "z3, the symx shims listed in evidence.coverage.shims_and_stubs (each validated per path against the float "
    "code), numpy object-array semantics. "
)
TECH = "symbolic execution of the real Python functions over z3 terms (symx), SMT obligations per path, replay on float code"

# property -> (claim text, note, design section)
CHECKS = {}


def add(pid, text, note, ref, technique=TECH):
    CHECKS[pid] = (text, note, ref, technique)


add(
    "C09",
    "Bounded symbolic model checking of the real align_index / create_aligned_global_axes: for every real value of "
    "every axis point and of the tolerance, at the stated axis sizes, each point is assigned to the nearest permitted "
    "aligned point within tolerance or to itself, the aligned axis is the strictly increasing union, and "
    "AlignDatasetError is raised iff two points of one dataset merge; content layer (data/weights/clps placed at the "
    "assigned aligned point, reported under the original coordinate) on concrete axes with symbolic data: three linked "
    "datasets with moved points, weights on one dataset only, 3-6 declaration orders x link methods through the real "
    "Optimizer and create_result_data (C02 stacking and C03 coordinate obligations).",
    COMMON_NOTE + "Axes strictly increasing, tolerance >= 0; ties resolve either way.",
    "3/C09",
)

add(
    "C08",
    "Bounded symbolic model checking of the real interval code: IntervalItem/OnlyConstraint.applies and "
    "does_interval_item_apply decide exact closed-interval membership for all real bounds and indices; "
    "get_axis_slice_from_interval, _get_area and add_model_weight satisfy Inside <= Affected <= Hull(nearest points) "
    "for all strictly increasing axes of the stated sizes and all finite/infinite/reversed bounds, and monotonicity; "
    "reduce_matrix/retrieve_clps remove, relate and restore exactly the selected columns; dataset+model weight; end to "
    "end through the real Optimizer with symbolic interval bounds, and several items with different intervals side by "
    "side (no item acts beyond its own interval).",
    COMMON_NOTE + "Axes strictly increasing; model-weight harness uses concrete axes with symbolic bounds and values.",
    "3/C08",
)

add(
    "C02",
    "The real Optimizer.calculate_penalty -> OptimizationGroup -> Data/Matrix/EstimationProvider pipeline is executed on "
    "symbolic data, weights, matrix entries, scales and relation/penalty parameters; every (matrix, data) pair handed to "
    "the linear solver is proved equal, column by column, to an independently written specification of the scaled, "
    "weighted, reduced, stacked problem, and the penalty vector to the residual symbols in order followed by the "
    "equal-area penalties; every data symbol occurs in exactly one problem; groups share no symbol; the same at an "
    "arbitrary optimiser vector through objective_function (all parameters, expression chains included, follow it).",
    COMMON_NOTE + "Coordinates and interval bounds concrete per configuration; the linear solver is a recording "
    "functional stub (optimality is C01).",
    "3/C02",
)
add(
    "C03",
    "Continuation of the C02 run through create_result_data with free symbols for the solver's clps and residuals "
    "(noisy data): per dataset, coordinate and label the result arrays are proved equal to the specification "
    "(residual, weighted_residual = weight x residual, clp by label incl. zero/related clps, matrix by label, "
    "data = fitted + residual, fitted = scale x matrix x clp resp. matrix x clp x global_matrix^T with the solver's "
    "residual identity substituted), for dataset labels that are substrings of each other, (global, model) storage, "
    "non-square and square data, single-dataset aligned indices, unequal model axes; NaN holes are violations.",
    COMMON_NOTE + "As C02; weights non-zero.",
    "3/C03",
)

add(
    "C13",
    "The real Optimizer.optimize/create_result run on terms with an adversarial least_squares stub (arbitrary evaluation "
    "points, arbitrary Jacobian) and the SVD contract stub: number_of_residuals / clps / free parameters / dof against "
    "independent counts, chi_square = sum fun^2 = sum of squared (weighted) residuals read from the result datasets + "
    "squared penalties, cost = chi/2 through re-evaluation, reduced chi, RMSE and dataset RMSEs as sqrt terms, "
    "covariance = V diag(1/sigma^2 | sigma^2 > eps) V^T symmetric (all mask paths), standard errors per free label "
    "(log-space mapping for non-negative parameters, all branches).",
    COMMON_NOTE + "least_squares and np.linalg.svd are contract stubs; identities closed by z3's simplifier normal form "
    "with congruence over sqrt/exp/log applications, branch feasibility by z3.",
    "3/C13",
)

add(
    "C10",
    "History part: on the real Optimizer with parameter-dependent symbolic matrices, the penalty at x0, x1, (an "
    "evaluation that raises), x0 again is proved term-for-term equal to the penalty of a fresh Optimizer evaluated only "
    "at that point (functional linear-solver stub: any state carried across evaluations yields a different term). "
    "Input part: snapshots of the caller's parameters (value, bounds, flags, expression, standard error), data arrays "
    "and model before/after optimize()+create_result() are identical, and two optimisations with the same optimiser "
    "schedule give identical result terms.",
    COMMON_NOTE + "Thread counts / schedules: decided as race-freedom of every prange loop of every parallel=True kernel found "
    "in the current source (two-iteration abstraction: i != j and equal index terms of a write and another access is unsat "
    "for all sizes), which under numba's semantics gives the sequential result for every schedule; interleavings themselves "
    "and process freshness are not explored. least_squares is the adversarial stub.",
    "3/C10",
)

add(
    "C12",
    "The real Parameters/Parameter classes with the real asteval interpreter run on symbolic values: for every acyclic "
    "dependency graph over 3 (thorough: 4) parameters in every declaration order, with arithmetic / exp vocabularies and "
    "flat or nested labels, after construction, after each symbolic update via set_from_label_and_value_arrays and after "
    "copy(), every expression parameter's value term equals the topological evaluation of its expression on the current "
    "plain values, and a second update_parameter_expression() changes no term; updating a copy follows the copy and "
    "leaves the original alone; value coincidences between parameters are explored (forks).",
    COMMON_NOTE + "asteval executed as is (its operators dispatch to the term classes); exp as uninterpreted function.",
    "3/C12",
)

add(
    "C11",
    "Real Parameter/Parameters code on symbolic values, bounds and optimiser iterates (exp/log uninterpreted with inverse, "
    "monotonicity and tangent-line axioms): round trip optimiser-vector -> parameter is the identity (non-negative: to "
    "the documented 1e-10 guard), x0 lies inside the transformed bounds, every iterate inside those bounds maps back "
    "inside [minimum, maximum] (positive if non-negative); the vector holds exactly the vary/expression-free parameters in "
    "declaration order for every flag arrangement enumerated; through the real Optimizer with the adversarial "
    "least_squares: fixed parameters and expression definitions are kept and all free parameters stay in bounds in "
    "every history record (read back with set_from_history) and in the result; at every model evaluation each "
    "expression parameter equals its definition on the optimiser's current values; labels, Jacobian columns, covariance "
    "and standard errors have one length and order also when the optimiser reports active bounds.",
    COMMON_NOTE + "That scipy itself keeps iterates inside the bounds it is given is its contract (assumed: the stub "
    "draws iterates only inside them). Label/Jacobian/covariance ordering is decided in C13.",
    "3/C11",
)

add(
    "C15",
    "The real Optimizer.optimize/create_result with the adversarial least_squares stub and a model fault whose position k "
    "(1..K+1) is a solver variable: for every k, raise_exception and verbose setting the outcome is proved to be the "
    "documented one (InitialParameterError for k=1; success False with the error text and parameters equal, as terms for "
    "all iterates, to a successfully evaluated point and datasets from that same evaluation; original exception object "
    "propagating with raise_exception=True), sys.stdout restored (identity), scheme snapshot unchanged; five kinds of "
    "invalid scheme are rejected with the documented exception with zero model evaluations and zero linear solves; the "
    "class of the injected exception is a finite symbolic choice (5 classes).",
    COMMON_NOTE + "Faults are exceptions raised by the model; non-finite matrices and scipy's own reactions are not modelled.",
    "3/C15",
)

add(
    "C04",
    "The real KMatrix / InitialConcentration / decay megacomplex code and the decay kernel's Python source run on symbolic "
    "rate constants, initial concentrations and times; the oracle is the ODE itself (K built by the harness from the "
    "declared entries): K a_l = -rate_l a_l for every component, sum_l a_l = documented normalised j, matrix[t, s] = "
    "sum_l exp(-rate_l t) A[l, s], labels in initial-concentration order - for chains, parallel, branched, reversible and "
    "side-loss schemes, combined K-matrices, every declaration order, both is_sequential branches, and the sequential / "
    "parallel megacomplexes.",
    COMMON_NOTE + "scipy.linalg.eig/solve are functional contract stubs (equations chosen by the flags the code passes); "
    "obligations are discharged as certificates goal = multiplier x contract equation by normal form, else by z3 NRA.",
    "3/C04",
)

add(
    "C05",
    "(a) The Python source of the Gaussian-IRF kernels, run through the real decay_matrix_implementation_index_independent "
    "on symbolic rates, times, centres, widths, scales: every entry is proved equal, on both numerical branches, to the "
    "documented closed form in physical parameters, with multi-Gaussian broadcasting, scales and normalisation; "
    "(b) relational: slice i of the real index-dependent implementation (shift, centre/width dispersion, wavelength or "
    "wavenumber variable) equals the index-independent kernel evaluated with that index's effective centre and width "
    "built from the inputs - for all shifts, coefficients and axis values.",
    COMMON_NOTE + "exp/erf/erfcx uninterpreted with the identities erfcx(x)=exp(x^2)(1-erf x), erf odd, exp(a)exp(b)=exp(a+b) "
    "applied as rewrite rules; sqrt(2) a symbol with s^2=2. That the closed form is the convolution integral, and all "
    "floating point behaviour (switch-over accuracy, overflow), are outside the claim.",
    "3/C05",
)

add(
    "C19",
    "Inductive step over an abstract registry state: the pre-state dict is constructed from finite-domain solver variables "
    "(which short name resolves to which plugin, which plugins are registered) constrained by the representation invariant; "
    "one real registry operation (add, add-instantiated, set_plugin, lookup, list; dotted / unknown names) with symbolic "
    "arguments is executed and the post-state must be the concretisation of the updated abstract state (first registration "
    "wins with exactly one PluginOverwriteWarning on conflict, full names reachable, errors leave the dict unchanged). "
    "The three public registries get the same step plus dispatch of load_* to the resolved plugin for explicit / inferred format.",
    "All variables are finite-domain: the solver's role is feasibility of (pre-state, operation) combinations and exhaustive "
    "branching; the gain over the suite is induction over arbitrary invariant-satisfying pre-states. Entry-point loading is I/O.",
    "3/C19",
    "finite-domain symbolic execution (z3 feasibility per branch) of the real registry functions, inductive invariant",
)

add(
    "C18",
    "Overwrite protection: the real save_model / save_parameters / save_scheme / save_result / save_dataset and "
    "protect_from_overwrite run against a symbolic file system (target is file / directory / non-empty, parent is a file, "
    "allow_overwrite: solver booleans) for explicit / inferred / unknown / missing formats and plugins that write or fail "
    "midway; on every path: exists and not allow_overwrite => FileExistsError, no plugin write, target not created, the "
    "check precedes plugin lookup; otherwise the resolved plugin is called exactly once. Run numbering (inductive step): the "
    "current source of previous_result_paths / create_result_run_name / _latest_result_path_fallback / "
    "get_latest_result_path is interpreted from its AST over z3 strings (symbolic result name and folder names over an "
    "8-letter alphabet, run numbers enumerated): saving never raises, the new folder is fresh and numbered max+1 over the "
    "runs of exactly that name, latest-result lookups resolve to the highest run of exactly that name.",
    "pathlib.Path / os.listdir inside io_plugin_utils are replaced by a shim answering from solver booleans; byte identity is "
    "not modelled (claim: no write call reached). String part: names <= 9 characters over 'ab_run01', <= 2 existing run folders, "
    "str.replace exact only where the remainder does not contain the prefix again, z3 4.8.12 string solver with valid lemma "
    "hints; two-folder create queries are thorough-tier and may be inconclusive. Concrete histories on real Project objects "
    "(latest-lookups after further runs, registry save onto an existing run, import_data, result names with a path separator) are "
    "sampling, not solver verdicts (names with a path separator or a dot: repaired by fix bf67d52, the scenario stays). " + COMMON_NOTE,
    "3/C18",
    "symbolic execution over a symbolic file system (symx) + AST->SMT string interpretation of the run-numbering source, z3",
)

add(
    "C01",
    "The real residual_variable_projection runs on terms with LAPACK replaced by its contract (dgeqrf: opaque (Q, R) with "
    "A = Q[:, :n] R; dormqr: multiply by Q or Q^T according to the side/trans flags the code passes; dtrtrs: back "
    "substitution): for A = Q[:, :n] R with Q from the Givens family (rational parameters; symbolic parameter for 2x1), R "
    "upper triangular and the data vector fully symbolic, residual = data - A clp entry by entry and A^T residual = 0 "
    "(hence clp minimises the norm), clp has n entries. residual_nnls: the solver gets exactly (matrix, data), clp is its "
    "non-negative solution, residual = data - matrix clp. Dispatch: the named residual function is the one invoked, unknown "
    "names are rejected before any evaluation; the same through EstimationProvider.calculate_residual, and every call "
    "site (per index, linked, full model) of the real Optimizer goes through the function the group names.",
    COMMON_NOTE + "LAPACK's and scipy-nnls' own numerics (KKT of scipy's solution) are the stubs' contracts; conditioning in "
    "floating point (1e10) is outside.",
    "3/C01",
)

add(
    "C14",
    "Data are produced by the real simulate / simulate_from_clp / simulate_full_model from symbolic generating clps and "
    "symbolic matrices, then the real fitting pipeline is evaluated on those symbolic data: for every linear problem handed "
    "to the solver, data = fit matrix x (generating clp / dataset scale) entry by entry (the data lie in the column space with "
    "exactly the generating coefficients), covering megacomplex scales, shared labels, index dependence, full models and "
    "linked datasets; with C01 this gives zero objective and recovered clps at the generating parameters; the clp "
    "reported under a label (pair) is the estimate of that column; away from the generating values the fit's matrices "
    "are the model at the optimiser's vector.",
    COMMON_NOTE + "NOT decided: return to the optimum from perturbed start values (convergence of an iterative float "
    "optimiser) and reproducibility of the noise seed (compiled RNG); builtin kinetic matrices are the subject of C04/C05.",
    "3/C14",
)

add(
    "C07",
    "Closed forms of the basis functions from the real megacomplex / shape code and the kernels' Python source on symbolic "
    "parameters and axis points: damped oscillation without IRF (column <osc>_cos = Re, <osc>_sin = Im of exp(-gamma t - i "
    "omega t), 1-3 oscillations); with Gaussian IRF only the part that needs no complex error function: columns are 0 for "
    "time points more than 5 sigma before the effective IRF position centre - shift_i (the decay model's position), for "
    "all parameters; coherent artifact columns = Gaussian and its first / second derivative forms at centre - shift_i with "
    "own-or-IRF width; Gaussian shape amplitude / half maximum / symmetry / formula; skewed Gaussian formula, theta <= 0 "
    "mask, |b| <= 1e-8 dispatch; inverted / scaled spectral axes; the Gaussian-IRF damped oscillation in all regions "
    "(complex error function as a pair of uninterpreted functions): columns = Re / Im of the closed form, both rate "
    "signs, 1-2 Gaussians, per-index shift; PFID columns (minus the anti-causal closed form at detuning nu_i - f, scaled / "
    "inverted axis); coherent artifact with dispersed centre and width.",
    COMMON_NOTE + "NOT decided: oscillation / PFID columns inside the pulse region (complex error function), 'proportional to "
    "the convolution' as an analytic fact, continuity as skewness -> 0, floating point ranges.",
    "3/C07",
)

add(
    "C06",
    "Every labelled output is compared with a per-label specification under enumerated declaration orders: all orders of "
    "2-3 megacomplexes per dataset with permuted label lists (shared / distinct labels, megacomplex scales, 2-D and 3-D "
    "contributions) through the real calculate_dataset_matrix / combine_megacomplex_matrices on symbolic matrices - the "
    "column of a label is the sum of the scaled contributions under that label; all orders of 2-3 damped oscillations "
    "(columns belong to their own frequency / rate); all orders of the spectral shape dict; baseline label. Compartment / "
    "K-matrix orders by C04's certificate per declaration order; linked datasets (index dependent + independent) in "
    "every declaration order through the real Optimizer.",
    COMMON_NOTE + "'leaves the fit unchanged' is derived (equal labelled matrices + C02), pfid / clp-guide not covered.",
    "3/C06",
)

ALL = [f"C{i:02d}" for i in range(1, 21)]


def main():
    checks = []
    for pid in sorted(CHECKS):
        text, note, ref, tech = CHECKS[pid]
        checks.append(
            {
                "property_id": pid,
                "quick_cmd": f"bin/check {pid} --tier quick",
                "thorough_cmd": f"bin/check {pid} --tier thorough",
                "evidence_file": f"/verif/evidence/{pid}.json",
                "replay_cmd_template": f"bin/check {pid} --replay {{path}}",
                "engine": "symx",
                "level_claimed": {"category": "model_checking", "text": text, "design_ref": ref},
                "level_note": note,
                "technique": tech,
            }
        )
    na = [{"property_id": k, "reason": v} for k, v in NA.items()]
    for pid in ALL:
        if pid not in CHECKS and pid not in NA:
            na.append({"property_id": pid, "reason": "check not built yet in this revision (planned, see DESIGN.md section 3b)"})
    m = {
        "version": 1,
        "setup_cmd": "/verif/bin/setup",
        "hooks": {
            "guard": "GLOTARAN_PYGLOTARAN_VERIF",
            "enable": "no source hooks are needed: all instrumentation is installed at run time by module-attribute "
            "shims (symx.env.Patcher) and removed again; bin/check exports GLOTARAN_PYGLOTARAN_VERIF=1 for uniformity",
            "baseline_off_cmd": "cd /repo && /venv/bin/python -m pytest -ra -q -p no:cacheprovider --timeout=900 "
            "--continue-on-collection-errors",
            "source_commits": [],
            "add_only": True,
        },
        "engines": [
            {
                "name": "symx",
                "path": "/verif/symx",
                "serves_properties": sorted(CHECKS),
                "kind_free_text": "dynamic symbolic execution of the real pyglotaran functions over z3 Real terms "
                "(object-dtype numpy arrays of term wrappers, forking at every symbolic branch, complete path "
                "enumeration within the stated shapes); each property is an SMT obligation pc AND assumptions AND "
                "NOT goal decided by z3 (unsat = holds for all real inputs on that path); sat models are replayed "
                "on the untouched float code before a VIOLATION is printed",
            }
        ],
        "checks": checks,
        "notes": "See DESIGN.md. Exit codes: 0 held / only known findings, 1 replayed violation, 3 harness or "
        "encoding error (never success).",
        "not_applicable": na,
    }
    with open(os.path.join(VERIF, "MANIFEST.json"), "w") as f:
        json.dump(m, f, indent=1)
    print("checks:", sorted(CHECKS), "n/a:", [x["property_id"] for x in na])


if __name__ == "__main__":
    main()
