#!/usr/bin/env python3
"""Regenerate the table of seeded changes in DESIGN.md (between the seed-table markers) from seeded/*/meta.json."""
import json, os, re

rows = []
base = "/verif/seeded"
for name in sorted(os.listdir(base), key=lambda s: (s.split("-")[0], int(s.split("-")[1]))):
    m = json.load(open(f"{base}/{name}/meta.json"))
    notes = (m.get("needs_to_manifest") or "").strip().splitlines()
    title = re.sub(r"^#+\s*", "", notes[0]).strip() if notes else ""
    title = re.sub(r"^(C\d+\s+)?[Mm]utation \d+\s*[-:–—]?\s*", "", title)
    det = (m.get("detected_by") or {}).get("quick", {})
    first = m.get("first_run") or ("detected" if str(m.get("how_detected", "")).startswith("caught by the check as first built") else "see text")
    rows.append(f"| {name} | {title[:150].replace('|', '/')} | {'yes' if det.get('detected') else 'NO (exit %s)' % det.get('exit')} | "
                f"{first.replace('|', '/')} | {str(m.get('how_detected', '')).replace('|', '/')} |")
table = ("| seed | change | quick tier reports it now | first run | how it is caught / what had to be strengthened |\n"
         "|------|--------|--------------------------|-----------|------------------------------------------------|\n" + "\n".join(rows))
p = "/verif/DESIGN.md"
s = open(p).read()
a, b = s.index("<!-- seed-table:begin -->"), s.index("<!-- seed-table:end -->")
s = s[:a] + "<!-- seed-table:begin -->\n" + table + "\n" + s[b:]
open(p, "w").write(s)
print(len(rows), "rows;", sum("| yes |" in r for r in rows), "detected")
