"""Optimizer-level harness parts shared by C10, C11, C13, C15: adversarial least_squares and SVD contract stubs."""
from __future__ import annotations

import warnings

import numpy as np
import z3
from scipy.optimize import OptimizeResult

from symx import core
from symx.env import Patcher
from symx.values import SymArray
from symx.values import SymReal
from symx.values import zreal

INF = float("inf")


class InjectedFault(RuntimeError):
    pass


class InjectedCustomFault(Exception):
    """A model error that is neither a ValueError, ArithmeticError nor RuntimeError (user megacomplexes raise what they like)."""


def fault_instance(which):
    """The exception a failing model evaluation raises: class chosen by the harness (symbolic finite choice)."""
    msg = "injected model fault #42"
    return [InjectedFault(msg), InjectedCustomFault(msg), KeyError(msg), ZeroDivisionError(msg), TypeError(msg)][which]


N_FAULT_CLASSES = 5


class AdversarialLeastSquares:
    """Stands for scipy.optimize.least_squares (trf, dogbox and lm alike).

    Calls the objective at x0 and then at K-1 further points that are arbitrary (fresh symbols) inside the
    bounds it was given; returns an OptimizeResult whose x is one of the evaluated points (``pick``; default the
    last), fun the value returned there and jac free symbols.  Every schedule real scipy can produce with <= K
    evaluations is an instance.
    """

    def __init__(self, ctx, K=2, pick=None, symbolic=True, points=None):
        self.ctx = ctx
        self.K = K
        self.pick = pick
        self.symbolic = symbolic
        self.points = points  # concrete mode: list of x vectors to evaluate after x0
        self.evals = []  # (x, f)
        self.kwargs = None
        self.x0 = None
        self.bounds = None
        self.raised = None

    def __call__(self, fun, x0, bounds=(-INF, INF), method="trf", max_nfev=None, verbose=0, ftol=None, gtol=None, xtol=None, **kw):
        self.kwargs = {"method": method, "max_nfev": max_nfev, "verbose": verbose, "ftol": ftol, "gtol": gtol, "xtol": xtol}
        self.x0 = np.asarray(x0)
        self.bounds = bounds
        lb, ub = (np.broadcast_to(np.asarray(b, dtype=object), self.x0.shape) for b in bounds)
        n = len(self.x0)
        xs = [self.x0]
        for k in range(1, self.K):
            if self.symbolic:
                x = SymArray((n,))
                for i in range(n):
                    v = SymReal(z3.Real(f"X{k}_{i}"))
                    for b, op in ((lb[i], "ge"), (ub[i], "le")):
                        if isinstance(b, (float, np.floating)) and float(b) in (INF, -INF):
                            continue
                        self.ctx.assume((v >= b) if op == "ge" else (v <= b))
                    x[i] = v
            else:
                x = np.asarray(self.points[k - 1], dtype=float)
            xs.append(x)
        for x in xs:
            f = fun(x)
            self.evals.append((x, np.asarray(f).copy()))
        if self.pick == "symbolic" and self.symbolic:
            r = self.ctx.choose(self.K, "returned_point")  # scipy returns its best point, not necessarily the last one
        else:
            r = self.K - 1 if self.pick is None or self.pick == "symbolic" else self.pick
        self.returned = r
        x, f = self.evals[r]
        m = len(f)
        # active_mask as scipy's trf / dogbox report it: -1 / +1 for entries on (or, within its tolerances, near) the lower /
        # upper bound, 0 elsewhere.  Over-approximated: the first bounded entry is arbitrarily reported active or not,
        # whatever the returned point (the code under test must not depend on it); floats: set where x equals the bound.
        mask = [0] * n
        offered = 0
        for i in range(n):
            sgns = [sgn for b, sgn in ((lb[i], -1), (ub[i], 1))
                    if not (isinstance(b, (float, np.floating, int)) and abs(float(b)) == INF)]
            if not sgns or method == "lm":
                continue
            if self.symbolic:
                if offered >= 1:
                    continue
                offered += 1
                mask[i] = sgns[0] if self.ctx.choose(2, f"active_mask_{i}") == 1 else 0
            else:
                for b, sgn in ((lb[i], -1), (ub[i], 1)):
                    if float(x[i]) == float(b):
                        mask[i] = sgn
        self.active_mask = mask
        if self.symbolic:
            jac = SymArray((m, n))
            for i in range(m):
                for j in range(n):
                    jac[i, j] = SymReal(z3.Real(f"J_{i}_{j}"))
            optimality = SymReal(z3.Real("optimality"))
        else:
            rng = np.random.default_rng(7)
            jsc_ = getattr(self, "jac_scale", 1.0)
            jac = rng.uniform(0.5, 1.5, size=(m, n)) * (1.0 if jsc_ == "near-singular" else jsc_)
            if jsc_ == "near-singular" and n >= 2:
                # numerically rank deficient: one singular value around 1e-10, i.e. above machine epsilon but with its square below it
                jac[:, -1] = jac[:, 0] + 1e-10 * rng.uniform(0.5, 1.5, size=m)
            optimality = 0.125
        return OptimizeResult(x=x, fun=f, jac=jac, nfev=len(self.evals), njev=1, optimality=optimality, active_mask=np.array(mask),
                              message="adversarial stub finished", status=1, success=True, cost=None, grad=None)


class SvdStub:
    """np.linalg.svd(J, full_matrices=False) contract: fresh sigma (descending, >= 0), Vt with orthonormal rows,
    and J^T J = V sigma^2 V^T."""

    def __init__(self, ctx, with_contract=True, well_conditioned=False):
        self.ctx = ctx
        self.calls = []
        self.with_contract = with_contract
        self.well_conditioned = well_conditioned  # assume every sigma >= 1 (no rank-deficiency forks)

    def __call__(self, a, full_matrices=True, **kw):
        a = np.asarray(a)
        m, n = a.shape
        k = min(m, n)
        sv = SymArray((k,))
        vt = SymArray((k, n))
        for i in range(k):
            sv[i] = SymReal(z3.Real(f"sv_{i}"))
            self.ctx.assume(sv[i].e >= (1 if self.well_conditioned else 0))
            if i:
                self.ctx.assume(sv[i - 1].e >= sv[i].e)
            for j in range(n):
                vt[i, j] = SymReal(z3.Real(f"vt_{i}_{j}"))
        self.calls.append((a, sv, vt))
        return None, sv, vt

    def contract(self):
        out = []
        for a, sv, vt in self.calls:
            k, n = vt.shape
            for i in range(k):
                for j in range(i, k):
                    dot = z3.Sum([zreal(vt[i, c]) * zreal(vt[j, c]) for c in range(n)])
                    out.append(dot == (1 if i == j else 0))
            for p in range(n):
                for q in range(p, n):
                    jtj = z3.Sum([zreal(a[r, p]) * zreal(a[r, q]) for r in range(a.shape[0])])
                    vsv = z3.Sum([zreal(vt[i, p]) * zreal(sv[i]) * zreal(sv[i]) * zreal(vt[i, q]) for i in range(k)])
                    out.append(jtj == vsv)
        return out


def install_optimizer_stubs(p: Patcher, ctx, src, ls: AdversarialLeastSquares, svd: SvdStub | None, facade=None):
    import glotaran.optimization.optimizer as om

    p.set(om, "least_squares", ls, "scipy.optimize.least_squares -> adversarial optimiser stub")
    if src.symbolic and svd is not None:
        om.np.stubs["svd"] = svd
        p.record.append("np.linalg.svd -> contract stub (fresh sigma, Vt)")


def free_parameter_spec(cfg):
    """Labels handed to the optimiser: vary and no expression, declaration order (from the configuration only)."""
    from harness import pipeline as pl

    out = []
    for lab in pl.param_labels(cfg):
        o = cfg.get("param_options", {}).get(lab, {})
        if o.get("vary", True) and not o.get("expr"):
            out.append(lab)
    return out
