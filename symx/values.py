"""symx value classes: z3-term wrappers that real numpy / glotaran code can compute with.

SymReal  - a real-valued z3 term with the Python number protocol (NOT a float subclass:
           numpy then keeps it as an object element or fails loudly, never reads a C double).
SymBool  - a z3 Bool; ``__bool__`` is the fork point of the path exploration (core.Ctx.branch).
SymComplex - pair of SymReal (oscillation kernels).
SymArray - ndarray subclass (dtype object) with element-wise real/imag and Parameter unwrapping.
"""
from __future__ import annotations

import math

import numpy as np
import z3

from symx import core

INF = float("inf")


class NonFinite(Exception):
    """A concrete nan reached a place where a term is required."""


def is_sym(x) -> bool:
    return isinstance(x, (SymReal, SymComplex))


def zreal(x):
    """Convert a Python/numpy real number (or SymReal) to a z3 Real term (exactly)."""
    if isinstance(x, SymReal):
        return x.e
    if isinstance(x, (bool, np.bool_)):
        return z3.RealVal(int(x))
    if isinstance(x, (int, np.integer)):
        return z3.RealVal(int(x))
    if isinstance(x, (float, np.floating)):
        x = float(x)
        if x != x or x in (INF, -INF):
            raise NonFinite(x)
        n, d = x.as_integer_ratio()
        return z3.Q(n, d)
    if isinstance(x, np.ndarray) and x.ndim == 0:
        return zreal(x.item())
    raise TypeError(type(x))


def _concrete_real(x):
    return isinstance(x, (int, float, np.integer, np.floating)) and not isinstance(
        x, (bool, np.bool_)
    )


class SymBool:
    __slots__ = ("e",)

    def __init__(self, e):
        self.e = e

    def __bool__(self):
        return core.Ctx.cur.branch(self.e)

    @staticmethod
    def _z(o):
        if isinstance(o, SymBool):
            return o.e
        if isinstance(o, (bool, np.bool_)):
            return z3.BoolVal(bool(o))
        raise TypeError(type(o))

    def __and__(self, o):
        try:
            return SymBool(z3.And(self.e, self._z(o)))
        except TypeError:
            return NotImplemented

    __rand__ = __and__

    def __or__(self, o):
        try:
            return SymBool(z3.Or(self.e, self._z(o)))
        except TypeError:
            return NotImplemented

    __ror__ = __or__

    def __invert__(self):
        return SymBool(z3.Not(self.e))

    def __repr__(self):
        return f"SB({self.e})"


_OPS = {
    "lt": lambda a, b: a < b,
    "le": lambda a, b: a <= b,
    "gt": lambda a, b: a > b,
    "ge": lambda a, b: a >= b,
    "eq": lambda a, b: a == b,
    "ne": lambda a, b: a != b,
}


def _cmp(a, b, op):
    """Compare where at least one side is a SymReal. Concrete +-inf / nan give plain bools."""
    for x, side in ((a, 0), (b, 1)):
        if isinstance(x, (float, np.floating)):
            xf = float(x)
            if xf != xf:  # nan: all comparisons False except !=
                return op == "ne"
            if xf in (INF, -INF):
                big = xf > 0
                if side == 0:  # inf op sym
                    return {"lt": not big, "le": not big, "gt": big, "ge": big, "eq": False, "ne": True}[op]
                return {"lt": big, "le": big, "gt": not big, "ge": not big, "eq": False, "ne": True}[op]
    try:
        za, zb = zreal(a), zreal(b)
    except TypeError:
        return NotImplemented
    r = z3.simplify(_OPS[op](za, zb))
    if z3.is_true(r):
        return True
    if z3.is_false(r):
        return False
    return SymBool(r)


class SymReal:
    __slots__ = ("e",)
    # make numpy defer to our reflected operators only for scalars; arrays broadcast element-wise
    __array_priority__ = 0

    def __init__(self, e):
        self.e = e

    def __repr__(self):
        return f"S({self.e})"

    def __float__(self):
        raise core.Concretisation("float() of a SymReal (a shim is missing)")

    def __int__(self):
        raise core.Concretisation("int() of a SymReal")

    def __index__(self):
        raise core.Concretisation("index() of a SymReal")

    def __hash__(self):
        return hash(self.e)

    def __bool__(self):
        # truth value of a number (np.nonzero, `if x:`) forks on x != 0
        return core.Ctx.cur.branch(self.e != 0)

    def __format__(self, spec):
        return f"<sym {self.e}>"

    # ---- arithmetic. concrete inf/nan operands propagate as concrete floats.
    def __add__(self, o):
        if isinstance(o, (complex, np.complexfloating, SymComplex)):
            return SymComplex.of(self) + o
        return self._arith(o, lambda a, b: a + b, lambda c: c)

    __radd__ = __add__

    def __sub__(self, o):
        if isinstance(o, (complex, np.complexfloating, SymComplex)):
            return SymComplex.of(self) - o
        return self._arith(o, lambda a, b: a - b, lambda c: -c)

    def __rsub__(self, o):
        if isinstance(o, (complex, np.complexfloating, SymComplex)):
            return SymComplex.of(o) - SymComplex.of(self)
        return self._arith(o, lambda a, b: b - a, lambda c: c)

    def __mul__(self, o):
        if isinstance(o, (complex, np.complexfloating, SymComplex)):
            return SymComplex.of(self) * o
        return self._arith(o, lambda a, b: a * b, None)

    __rmul__ = __mul__

    def __truediv__(self, o):
        if isinstance(o, (complex, np.complexfloating, SymComplex)):
            return SymComplex.of(self) / o
        if isinstance(o, SymReal):
            core.Ctx.cur.denominator(o.e)
        elif _concrete_real(o) and float(o) in (INF, -INF):
            return 0.0
        return self._arith(o, lambda a, b: a / b, None)

    def __rtruediv__(self, o):
        if isinstance(o, (complex, np.complexfloating, SymComplex)):
            return SymComplex.of(o) / SymComplex.of(self)
        core.Ctx.cur.denominator(self.e)
        return self._arith(o, lambda a, b: b / a, None)

    def _arith(self, o, f, inf_sign):
        if _concrete_real(o):
            of = float(o)
            if of != of:
                return math.nan
            if of in (INF, -INF):
                if inf_sign is None:
                    raise core.Unsupported("symbolic * or / concrete infinity")
                return inf_sign(of)
        try:
            z = zreal(o)
        except TypeError:
            return NotImplemented
        return SymReal(f(self.e, z))

    def __neg__(self):
        return SymReal(-self.e)

    def __pos__(self):
        return self

    def __abs__(self):
        return SymReal(z3.If(self.e >= 0, self.e, -self.e))

    def __pow__(self, o):
        if isinstance(o, (float, np.floating)) and float(o).is_integer():
            o = int(o)
        if isinstance(o, (int, np.integer)) and not isinstance(o, bool):
            o = int(o)
            if o >= 0:
                r = z3.RealVal(1)
                for _ in range(o):
                    r = r * self.e
                return SymReal(r)
            core.Ctx.cur.denominator(self.e)
            r = z3.RealVal(1)
            for _ in range(-o):
                r = r * self.e
            return SymReal(1 / r)
        if isinstance(o, (float, np.floating)) and float(o) == 0.5:
            return self.sqrt()
        raise core.Unsupported(f"SymReal ** {o!r}")

    def __rpow__(self, o):
        raise core.Unsupported(f"{o!r} ** SymReal")

    def __lt__(self, o):
        return _cmp(self, o, "lt")

    def __le__(self, o):
        return _cmp(self, o, "le")

    def __gt__(self, o):
        return _cmp(self, o, "gt")

    def __ge__(self, o):
        return _cmp(self, o, "ge")

    def __eq__(self, o):
        return _cmp(self, o, "eq")

    def __ne__(self, o):
        return _cmp(self, o, "ne")

    # ---- methods numpy's object loops call (np.exp(obj_arr) -> element.exp())
    def exp(self):
        return SymReal(core.Ctx.cur.uf("exp", self.e))

    def log(self):
        return SymReal(core.Ctx.cur.uf("log", self.e))

    def sqrt(self):
        return SymReal(core.Ctx.cur.uf("sqrt", self.e))

    def sin(self):
        return SymReal(core.Ctx.cur.uf("sin", self.e))

    def cos(self):
        return SymReal(core.Ctx.cur.uf("cos", self.e))

    def erf(self):
        return SymReal(core.Ctx.cur.uf("erf", self.e))

    def erfc(self):
        return SymReal(1 - core.Ctx.cur.uf("erf", self.e))

    def erfcx(self):
        return SymReal(core.Ctx.cur.uf("erfcx", self.e))

    def conjugate(self):
        return self

    @property
    def real(self):
        return self

    @property
    def imag(self):
        return 0.0

    def copy(self):
        return self

    def item(self):
        return self


def sym(name: str) -> SymReal:
    return SymReal(z3.Real(name))


class SymComplex:
    __slots__ = ("re", "im")

    def __init__(self, re, im):
        self.re = re if isinstance(re, SymReal) else SymReal(zreal(re))
        self.im = im if isinstance(im, SymReal) else SymReal(zreal(im))

    @staticmethod
    def of(x):
        if isinstance(x, SymComplex):
            return x
        if isinstance(x, (complex, np.complexfloating)):
            return SymComplex(float(x.real), float(x.imag))
        if isinstance(x, SymReal):
            return SymComplex(x, 0)
        if _concrete_real(x):
            return SymComplex(float(x), 0)
        raise TypeError(type(x))

    real = property(lambda s: s.re)
    imag = property(lambda s: s.im)

    def __repr__(self):
        return f"C({self.re.e}, {self.im.e})"

    def __hash__(self):
        return hash((self.re, self.im))

    def _b(self, o, f):
        try:
            o = SymComplex.of(o)
        except TypeError:
            return NotImplemented
        return f(self, o)

    def __add__(self, o):
        return self._b(o, lambda a, b: SymComplex(a.re + b.re, a.im + b.im))

    __radd__ = __add__

    def __sub__(self, o):
        return self._b(o, lambda a, b: SymComplex(a.re - b.re, a.im - b.im))

    def __rsub__(self, o):
        return self._b(o, lambda a, b: SymComplex(b.re - a.re, b.im - a.im))

    def __mul__(self, o):
        return self._b(
            o,
            lambda a, b: SymComplex(a.re * b.re - a.im * b.im, a.re * b.im + a.im * b.re),
        )

    __rmul__ = __mul__

    @staticmethod
    def _div(a, b):
        d = b.re * b.re + b.im * b.im
        return SymComplex(
            (a.re * b.re + a.im * b.im) / d,
            (a.im * b.re - a.re * b.im) / d,
        )

    def __truediv__(self, o):
        return self._b(o, SymComplex._div)

    def __rtruediv__(self, o):
        return self._b(o, lambda a, b: SymComplex._div(b, a))

    def __neg__(self):
        return SymComplex(-self.re, -self.im)

    def __pos__(self):
        return self

    def __pow__(self, o):
        if isinstance(o, (int, np.integer)) and int(o) >= 0:
            r = SymComplex(1, 0)
            for _ in range(int(o)):
                r = r * self
            return r
        raise core.Unsupported("complex pow")

    def conjugate(self):
        return SymComplex(self.re, -self.im)

    def exp(self):
        m = self.re.exp()
        return SymComplex(m * self.im.cos(), m * self.im.sin())

    def erf(self):
        """Complex error function as a pair of binary uninterpreted functions of (re, im)."""
        import z3 as _z3

        fr = _z3.Function("cerf_re", _z3.RealSort(), _z3.RealSort(), _z3.RealSort())
        fi = _z3.Function("cerf_im", _z3.RealSort(), _z3.RealSort(), _z3.RealSort())
        a, b = _z3.simplify(self.re.e), _z3.simplify(self.im.e)
        return SymComplex(SymReal(fr(a, b)), SymReal(fi(a, b)))

    def __eq__(self, o):
        o = SymComplex.of(o)
        a, b = self.re == o.re, self.im == o.im
        if isinstance(a, bool) and isinstance(b, bool):
            return a and b
        return SymBool(z3.And(SymBool._z(a), SymBool._z(b)))

    def __ne__(self, o):
        r = self.__eq__(o)
        return (not r) if isinstance(r, bool) else ~r


class SymArray(np.ndarray):
    """Object ndarray that behaves like a float/complex array for .real/.imag and Parameter stores."""

    def __new__(cls, shape):
        a = np.empty(shape, dtype=object).view(cls)
        return a

    def __setitem__(self, key, value):
        value = _unwrap(value)
        super().__setitem__(key, value)

    @property
    def real(self):
        out = np.empty(self.shape, dtype=object)
        for i in np.ndindex(*self.shape):
            v = np.ndarray.__getitem__(self, i)
            out[i] = v.real if isinstance(v, (SymComplex, complex, SymReal)) else v
        return out.view(SymArray)

    @property
    def imag(self):
        out = np.empty(self.shape, dtype=object)
        for i in np.ndindex(*self.shape):
            v = np.ndarray.__getitem__(self, i)
            out[i] = v.imag if isinstance(v, (SymComplex, complex)) else 0.0
        return out.view(SymArray)


def _unwrap(value):
    """What a float64 array would do with a Parameter (via __array__/__float__): take its value."""
    if hasattr(value, "value") and type(value).__name__ == "Parameter":
        return value.value
    if isinstance(value, (list, tuple)) and any(type(v).__name__ == "Parameter" for v in value):
        return [_unwrap(v) for v in value]
    return value


def symarr(shape, name) -> np.ndarray:
    """Object array of fresh symbols name_i_j..."""
    if isinstance(shape, int):
        shape = (shape,)
    a = SymArray(shape)
    for idx in np.ndindex(*shape):
        np.ndarray.__setitem__(a, idx, sym(name + "".join(f"_{i}" for i in idx)))
    return a


def zterm(x):
    """z3 term of a number-like leaf (SymReal or concrete)."""
    return zreal(x)
