"""C09 - CLP linking aligns global axes faithfully.

Axis layer: the real ``DataProviderLinked.align_index`` / ``create_aligned_global_axes`` run on
fully symbolic, strictly increasing axes and a symbolic tolerance >= 0.  The specification is
built from the inputs only (nearest permitted candidate within tolerance, ties free).
Content layer: see c09 content configs (concrete axes, symbolic data) in ``_run_content``.
"""
from __future__ import annotations

import itertools
import types

import numpy as np
import z3

from symx import core
from symx.env import Patcher
from symx.env import SymNP
from symx.run import model_env
from symx.values import SymReal
from symx.values import sym
from symx.values import symarr
from symx.values import zreal

BOUNDS = {
    "quick": "axis layer: 2 datasets x (<=3,<=2) points and 3 datasets x 2 points, every method and "
    "dataset order, all axis values and the tolerance symbolic; content layer: see configs (incl. 3 pipelines with mixed "
    "index dependent / independent datasets)",
    "thorough": "axis layer: up to (3,3), (4,2), (2,2,2), (3,2,2) points; content layer: larger grids",
}
OUTSIDE = (
    "more than 3 linked datasets / more than 4 points per axis at the axis layer; floating-point ties "
    "(distances whose order is decided by rounding)"
)
METHODS = ("nearest", "backward", "forward")


def preload():
    import glotaran.optimization.data_provider  # noqa: F401
    import glotaran.optimization.optimization_group  # noqa: F401


def configs(tier, seed):
    sizes = [(2, 2), (3, 2), (2, 3), (2, 2, 2), (1, 3), (3, 1)]
    if tier == "thorough":
        sizes += [(3, 3), (4, 2), (2, 4), (3, 2, 2), (2, 3, 2), (2, 2, 3)]
    out = []
    for s in sizes:
        for m in METHODS:
            if tier == "quick" and len(s) >= 3 and m != "nearest":
                continue  # three datasets: quick tier with the default method only (backward / forward in the thorough tier)
            base = {"name": f"axis-{'x'.join(map(str, s))}-{m}", "kind": "axis", "sizes": list(s), "method": m}
            if len(s) >= 3 or sum(s) >= 6:
                for c in range(_cases(s)):
                    out.append(dict(base, name=base["name"] + f"-case{c}", case=c))
            else:
                out.append(base)
    for m in METHODS:
        out.append({"name": f"index-4-{m}", "kind": "index", "n": 4 if tier == "quick" else 5, "method": m})
    out.sort(key=lambda c: -sum(c.get("sizes", [0])) * (3 if len(c.get("sizes", [])) > 2 else 1))
    # end to end (concrete axes): stacking order of data / weights / matrices at shared points, results under original coordinates
    A2, A3 = [0.0, 1.0], [0.0, 1.0, 2.5]
    dsets = {"da": {"label": "da", "mc": ["m1"], "maxis": A3, "gaxis": [1.0, 2.0, 3.0]},
             "db": {"label": "db", "mc": ["m1"], "maxis": A2, "gaxis": [1.05, 2.0, 3.5], "weight": True},
             "dc": {"label": "dc", "mc": ["m1"], "maxis": A2 + [3.0, 4.0], "gaxis": [1.95, 3.45], "scale": "scc"}}
    import itertools as _it

    orders = list(_it.permutations(["da", "db", "dc"])) if tier == "thorough" else [("da", "db", "dc"), ("db", "da", "dc"), ("dc", "da", "db")]
    for order in orders:
        for m in (METHODS if tier == "thorough" or order == orders[0] else ("nearest",)):
            out.append({"name": f"pipeline-{'-'.join(order)}-{m}", "kind": "pipeline",
                        "pipeline": {"name": f"pipeline-{'-'.join(order)}-{m}", "mcs": {"m1": {"labels": ["s1", "s2"]}}, "tol": 0.1, "method": m,
                                     "datasets": [dict(dsets[d]) for d in order], "groups": {"default": {"link_clp": True}}}})
    # mixed index dependence: an index independent dataset stacked before / after an index dependent one (per-index matrices of the
    # later datasets must be taken at *their own* aligned point), shared and private clp labels
    mixed = {"m1": {"labels": ["s1", "s2"]}, "m2": {"labels": ["s2", "s3"], "idx": True}}
    mc_of = {"da": ["m1"], "db": ["m2"], "dc": ["m1", "m2"]}
    for order in (("da", "db"), ("db", "da"), ("da", "dc", "db")):
        out.append({"name": f"pipeline-mixed-index-{'-'.join(order)}", "kind": "pipeline",
                    "pipeline": {"name": f"pipeline-mixed-index-{'-'.join(order)}", "mcs": mixed, "tol": 0.1, "method": "nearest",
                                 "datasets": [dict(dsets[d], mc=mc_of[d], weight=False) for d in order],
                                 "groups": {"default": {"link_clp": True}}}})
    for order in (("da", "db"), ("db", "da")):
        out.append({"name": f"pipeline-model-weight-{'-'.join(order)}", "kind": "pipeline",
                    "pipeline": {"name": f"pipeline-model-weight-{'-'.join(order)}", "mcs": {"m1": {"labels": ["s1", "s2"]}}, "tol": 0.1,
                                 "datasets": [dict(dsets[d], weight=False) for d in order], "groups": {"default": {"link_clp": True}},
                                 "weights": [{"datasets": ["da"], "global_interval": [2.0, 3.0], "model_interval": [0.0, 1.0]}]}})
    return out


# ------------------------------------------------------------------ specification (inputs only)
def _abs(e):
    return z3.If(e >= 0, e, -e)


def spec_align(r, p, targets, tol, method):
    """z3 formula: r is a correct alignment of value p on ``targets`` (list of terms)."""

    def cand(t):
        c = _abs(t - p) <= tol
        if method == "forward":
            c = z3.And(c, t >= p)
        elif method == "backward":
            c = z3.And(c, t <= p)
        return c

    if not targets:
        return r == p
    any_c = z3.Or([cand(t) for t in targets])
    nearest = z3.Or(
        [
            z3.And(r == t, cand(t), z3.And([z3.Implies(cand(u), _abs(t - p) <= _abs(u - p)) for u in targets]))
            for t in targets
        ]
    )
    return z3.If(any_c, nearest, r == p)


def _provider(axes):
    from glotaran.optimization.data_provider import DataProviderLinked

    prov = object.__new__(DataProviderLinked)
    prov._global_axes = axes
    return prov


def _sym_axis(ctx, name, n):
    a = symarr(n, name)
    for i in range(n - 1):
        ctx.assume(zreal(a[i]) < zreal(a[i + 1]))
    return a


def run_config(cfg, rec):
    import glotaran.optimization.data_provider as dp

    rec.encodes(dp.DataProviderLinked.align_index, dp.DataProviderLinked.create_aligned_global_axes)
    rec.assume_note("global axes strictly increasing; tolerance >= 0; equal distances may resolve either way")
    if cfg["kind"] == "pipeline":
        from harness import c03_result_data as c03

        # C02 obligations (each data point / weight / matrix row once, in the group's stacking order, per aligned point) and C03
        # obligations (every reported array under the dataset's own coordinates) on the real Optimizer + create_result_data
        return c03.run_config(cfg["pipeline"], rec)
    with Patcher() as p:
        p.set(dp, "np", SymNP(), "numpy facade")
        rec.shims += p.record
        if cfg["kind"] == "index":
            _run_index(cfg, rec, dp)
        else:
            _run_axis(cfg, rec, dp)


def _run_index(cfg, rec, dp):
    n, method = cfg["n"], cfg["method"]

    def fn(ctx):
        tgt = _sym_axis(ctx, "t", n)
        tol = sym("tol")
        ctx.assume(tol.e >= 0)
        v = sym("v")
        return tgt, tol, v, dp.DataProviderLinked.align_index(v, tgt, tol, method)

    for ctx, (kind, out) in core.explore(fn, rec.stats):
        m = rec.witness_path(ctx)
        if kind == "exc":
            rec.unexpected(ctx, f"align_index raised {type(out).__name__}", f"align_index:{method}:exception",
                           lambda mm: {"env": model_env(mm)})
            continue
        tgt, tol, v, r = out
        tz = [zreal(t) for t in tgt]
        goal = spec_align(zreal(r), v.e, tz, tol.e, method)
        vars_ = tz + [tol.e, v.e]
        rec.check(ctx, "align_index = nearest permitted target within tolerance, else itself", goal,
                  fingerprint=f"align_index:{method}:wrong-target",
                  witness=lambda mm, vars_=vars_: {"env": model_env(mm, vars_)})
        if m is not None and len(rec.validations) < rec.cfg.get("max_validations", 6):
            ds_ = [t - v.e for t in tz]
            ties = [c for i_ in range(len(ds_)) for c in (ds_[i_] != tol.e, ds_[i_] != -tol.e)]
            ties += [c for i_ in range(len(ds_)) for j_ in range(i_ + 1, len(ds_)) for c in (ds_[i_] != ds_[j_], ds_[i_] != -ds_[j_])]
            m = ctx.model(extra=ties)  # a validation point away from exact ties (they resolve either way in floats)
        if m is not None:
            env = model_env(m, vars_)
            rec.validate("path", env, {"r": core.evalf(zreal(r), env)})
        rec.want_sample() and rec.sample({"path_condition": [str(c) for c in ctx.pc][:6], "result": str(zreal(r))})


def _cases(sizes):
    """Exhaustive case split (for parallelism): position of the first point of dataset 1 relative
    to the points of dataset 0.  The harness proves that the cases cover everything."""
    n0 = sizes[0]
    return 2 * n0 + 1


def _case_cond(case, a0, x):
    """case 2i: x strictly between a0[i-1] and a0[i]; case 2i+1: x == a0[i]."""
    i, odd = divmod(case, 2)
    if odd:
        return x == a0[i]
    conds = []
    if i > 0:
        conds.append(x > a0[i - 1])
    if i < len(a0):
        conds.append(x < a0[i])
    return z3.And(conds)


def _run_axis(cfg, rec, dp):
    sizes, method = cfg["sizes"], cfg["method"]
    labels = [f"d{i}" for i in range(len(sizes))]
    case = cfg.get("case")

    def fn(ctx):
        axes = {lab: _sym_axis(ctx, f"a{i}", n) for i, (lab, n) in enumerate(zip(labels, sizes))}
        tol = sym("tol")
        ctx.assume(tol.e >= 0)
        if case is not None:
            a0 = [zreal(x) for x in axes[labels[0]]]
            ctx.assume(_case_cond(case, a0, zreal(axes[labels[1]][0])))
        prov = _provider(axes)
        calls = []
        real = dp.DataProviderLinked.align_index

        def spy(index, target_axis, tolerance, meth):
            r = real(index, target_axis, tolerance, meth)
            calls.append((index, list(target_axis), r))
            return r

        prov.align_index = spy
        ctx.log = (axes, tol, calls)
        scheme = types.SimpleNamespace(clp_link_tolerance=tol, clp_link_method=method)
        return prov.create_aligned_global_axes(scheme)

    first = True
    for ctx, (kind, out) in core.explore(fn, rec.stats):
        m = rec.witness_path(ctx)
        axes, tol, calls = ctx.log
        allvars = [zreal(x) for a in axes.values() for x in a] + [tol.e]
        wit = lambda mm, allvars=allvars: {"env": model_env(mm, allvars)}  # noqa: E731
        if first and case == 0:
            first = False
            a0 = [zreal(x) for x in axes[labels[0]]]
            x = zreal(axes[labels[1]][0])
            s = z3.Solver()
            s.add([a0[i] < a0[i + 1] for i in range(len(a0) - 1)])
            s.add(z3.Not(z3.Or([_case_cond(c, a0, x) for c in range(_cases(sizes))])))
            if str(s.check()) != "unsat":
                rec.errors.append("case split is not exhaustive")
        items = []
        aligned = [zreal(x) for x in axes[labels[0]]]  # spec-side accumulated axis
        pos = 0
        refused = False
        for lab in labels[1:]:
            pts = [zreal(x) for x in axes[lab]]
            step = calls[pos : pos + len(pts)]
            pos += len(pts)
            if len(step) < len(pts):
                break
            tz = [zreal(t) for t in step[0][1]]
            same_set = z3.And(
                [z3.Or([t == a for a in aligned]) for t in tz] + [z3.Or([a == t for t in tz]) for a in aligned]
                + [tz[i] < tz[i + 1] for i in range(len(tz) - 1)]
                + [z3.BoolVal(all(len(c[1]) == len(tz) and all(zreal(u).eq(v) for u, v in zip(c[1], tz)) for c in step))]
            )
            items.append(("aligned axis = strictly increasing union of all assignments so far", same_set,
                          f"aligned-axis:{method}:not-union"))
            assigned = []
            for (index, _tgt, r), pt in zip(step, pts):
                items.append(("point assigned to nearest permitted aligned point within tolerance, else itself",
                              z3.And(zreal(index) == pt, spec_align(zreal(r), pt, aligned, tol.e, method)),
                              f"align_index:{method}:wrong-target"))
                assigned.append(zreal(r))
            dup = z3.Or([assigned[i] == assigned[j] for i, j in itertools.combinations(range(len(assigned)), 2)]
                        or [z3.BoolVal(False)])
            if kind == "exc" and pos >= len(calls):
                refused = True
                items.append(("AlignDatasetError only if two points of one dataset merge", dup,
                              f"create_aligned:{method}:spurious-refusal"))
                break
            items.append(("no refusal missed: assignments of one dataset are pairwise distinct", z3.Not(dup),
                          f"create_aligned:{method}:merge-not-refused"))
            aligned = aligned + assigned
        # validation point away from exact ties (equal distances / distance == tolerance): there exact and float
        # arithmetic may legitimately pick different targets ("ties resolve either way")
        ties = []
        for (index, tgt, _r) in calls:
            ds_ = [zreal(t) - zreal(index) for t in tgt]
            for i_ in range(len(ds_)):
                ties += [ds_[i_] != tol.e, ds_[i_] != -tol.e]
                for j_ in range(i_ + 1, len(ds_)):
                    ties += [ds_[i_] != ds_[j_], ds_[i_] != -ds_[j_]]
        mv = ctx.model(extra=ties) if m is not None and len(rec.validations) < rec.cfg.get("max_validations", 6) else None
        m = mv
        if kind == "exc":
            if type(out).__name__ != "AlignDatasetError" or not refused:
                rec.unexpected(ctx, f"unexpected {type(out).__name__}: {out}", f"create_aligned:{method}:exception", wit)
            expected = {"exception": "AlignDatasetError"}
        else:
            expected = {}
            ret0 = [zreal(x) for x in out[labels[0]]]
            items.append(("first dataset keeps its own axis",
                          z3.And([a == b for a, b in zip(ret0, [zreal(x) for x in axes[labels[0]]])]
                                 + [z3.BoolVal(len(ret0) == sizes[0])]),
                          f"create_aligned:{method}:first-axis"))
            pos = 0
            for lab in labels[1:]:
                ret = [zreal(x) for x in out[lab]]
                step = calls[pos : pos + len(ret)]
                pos += len(ret)
                items.append(("returned aligned axis of a dataset = its assignments in original order",
                              z3.And([a == zreal(c[2]) for a, c in zip(ret, step)] + [z3.BoolVal(len(ret) == len(step))]),
                              f"create_aligned:{method}:returned-order"))
            if m is not None:
                env0 = model_env(m, allvars)
                expected = {lab: [core.evalf(zreal(x), env0) for x in out[lab]] for lab in labels}
        rec.check_all(ctx, items, wit)
        if m is not None:
            rec.validate("path", model_env(m, allvars), expected)
        rec.want_sample() and rec.sample({"path_condition": [str(c) for c in ctx.pc][:8],
                    "outcome": "AlignDatasetError" if kind == "exc" else {k: [str(zreal(x)) for x in v] for k, v in out.items()}})


# ------------------------------------------------------------------ float side (validation + replay)
def _float_inputs(cfg, env):
    if cfg["kind"] == "index":
        tgt = np.array([env[f"t_{i}"] for i in range(cfg["n"])], dtype=float)
        return tgt, float(env["tol"]), float(env["v"])
    axes = {
        f"d{i}": np.array([env[f"a{i}_{j}"] for j in range(n)], dtype=float) for i, n in enumerate(cfg["sizes"])
    }
    return axes, float(env["tol"])


def concrete(cfg, env):
    if cfg["kind"] == "pipeline":
        from harness import c03_result_data as c03

        return c03.concrete(cfg["pipeline"], env)
    return _concrete(cfg, env)


def _concrete(cfg, env):
    from glotaran.optimization.data_provider import DataProviderLinked

    if cfg["kind"] == "index":
        tgt, tol, v = _float_inputs(cfg, env)
        return {"r": float(DataProviderLinked.align_index(v, tgt, tol, cfg["method"]))}
    axes, tol = _float_inputs(cfg, env)
    prov = _provider(axes)
    scheme = types.SimpleNamespace(clp_link_tolerance=tol, clp_link_method=cfg["method"])
    try:
        out = prov.create_aligned_global_axes(scheme)
    except ValueError as ex:
        return {"exception": type(ex).__name__}
    return {k: [float(x) for x in v] for k, v in out.items()}


def _ok_float(r, p, targets, tol, method):
    cands = [t for t in targets if abs(t - p) <= tol and (method != "forward" or t >= p) and (method != "backward" or t <= p)]
    if not cands:
        return r == p
    best = min(abs(t - p) for t in cands)
    return any(r == t and abs(t - p) == best for t in cands)


def replay(data):
    """Float-code oracle: brute-force specification on the model's numbers."""
    cfg, env = data["cfg"], data["env"]
    if cfg["kind"] == "pipeline":
        from harness import c03_result_data as c03

        return c03.replay({"cfg": cfg["pipeline"], "env": {}})
    method = cfg["method"]
    from glotaran.optimization.data_provider import DataProviderLinked

    if cfg["kind"] == "index":
        tgt, tol, v = _float_inputs(cfg, env)
        try:
            r = float(DataProviderLinked.align_index(v, tgt, tol, method))
        except Exception as ex:  # noqa: BLE001
            return True, f"align_index({v}, {tgt.tolist()}, {tol}, {method!r}) raised {type(ex).__name__}: {ex}"
        ok = _ok_float(r, v, list(tgt), tol, method)
        return (not ok), f"align_index({v}, {tgt.tolist()}, {tol}, {method!r}) -> {r}"
    axes, tol = _float_inputs(cfg, env)
    from glotaran.optimization.data_provider import AlignDatasetError

    prov = _provider(axes)
    scheme = types.SimpleNamespace(clp_link_tolerance=tol, clp_link_method=method)
    labels = list(axes)
    calls = []
    real = DataProviderLinked.align_index

    def spy(index, target_axis, tolerance, meth):
        r = real(index, target_axis, tolerance, meth)
        calls.append((float(index), [float(t) for t in target_axis], float(r)))
        return r

    prov.align_index = spy
    head = f"axes={_fmt(axes)} tol={tol} method={method}"
    try:
        out, exc = prov.create_aligned_global_axes(scheme), None
    except AlignDatasetError as ex:
        out, exc = None, ex
    except Exception as ex:  # noqa: BLE001
        return True, f"{head}: create_aligned_global_axes raised {type(ex).__name__}: {ex}"
    # brute-force specification on the same numbers (exactly equal float distances accepted either way)
    aligned = sorted(float(x) for x in axes[labels[0]])
    pos = 0
    for lab in labels[1:]:
        pts = [float(x) for x in axes[lab]]
        step = calls[pos : pos + len(pts)]
        pos += len(pts)
        if len(step) < len(pts):
            return True, f"{head}: dataset {lab} was not aligned point by point"
        res = []
        for (index, tgt, r), p in zip(step, pts):
            if sorted(set(tgt)) != aligned or tgt != sorted(tgt):
                return True, f"{head}: aligned axis used for {lab} is {tgt}, union of assignments so far is {aligned}"
            if index != p or not _ok_float(r, p, aligned, tol, method):
                return True, f"{head}: point {p} of {lab} assigned to {r}; aligned points so far {aligned}"
            res.append(r)
        merged = len(set(res)) != len(res)
        if exc is not None and pos >= len(calls):
            if merged:
                return False, "refusal justified"
            return True, f"{head}: AlignDatasetError although no two points of {lab} merge (assignments {res})"
        if merged:
            return True, f"{head}: two points of {lab} merge ({res}) and this was not refused"
        if out is not None and [float(x) for x in out[lab]] != res:
            return True, f"{head}: returned axis of {lab} is {out[lab]}, assignments were {res}"
        aligned = sorted(set(aligned) | set(res))
    if out is not None and [float(x) for x in out[labels[0]]] != [float(x) for x in axes[labels[0]]]:
        return True, f"{head}: first dataset's axis changed"
    return False, "float code agrees with the specification"


def _spec_choices(p, targets, tol, method):
    cands = [t for t in targets if abs(t - p) <= tol and (method != "forward" or t >= p) and (method != "backward" or t <= p)]
    if not cands:
        return [p]
    best = min(abs(t - p) for t in cands)
    return [t for t in cands if abs(t - p) == best]


def _fmt(axes):
    return {k: [float(x) for x in v] for k, v in axes.items()}
