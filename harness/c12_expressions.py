"""C12 - expression parameters always equal their expression.

The real Parameters / Parameter classes and the real asteval interpreter run on symbolic values; every acyclic
dependency graph over n parameters is enumerated in every declaration order (configuration), the parameter
values and all updates are symbolic.
"""
from __future__ import annotations

import itertools
import math
import random
import warnings

import numpy as np
import z3

from symx import core
from symx.env import Patcher
from symx.env import install_numeric_shims
from symx.run import model_env
from symx.values import SymArray
from symx.values import SymReal
from symx.values import sym
from symx.values import zreal

BOUNDS = {
    "quick": "all dependency DAGs over 3 parameters x all 6 declaration orders x 3 expression vocabularies, nested and flat "
    "labels, 2 symbolic updates + copy; all plain values symbolic; plus 3 four-parameter graphs (chain, diamonds) x 4 declaration orders; "
    "9 life-cycle configurations with expressions assigned to existing Parameter objects",
    "thorough": "additionally all DAGs over 4 parameters x all 24 declaration orders (seeded vocabulary), 3 updates",
}
OUTSIDE = "5-6 parameters; loading from yml/csv files (file I/O); expressions outside the vocabulary (+ - * / exp sqrt)"

NAMES_FLAT = ["a", "b", "c", "d"]
NAMES_NESTED = ["rates.k1", "rates.k2", "amp.1", "b"]

FLOAT_SELFCHECK = True


def preload():
    import glotaran.parameter.parameters  # noqa: F401


def all_dags(n):
    """deps[i] subset of range(i); at least one expression node."""
    choices = [[()]] + [
        [c for r in range(i + 1) for c in itertools.combinations(range(i), r)] for i in range(1, n)
    ]
    for deps in itertools.product(*choices):
        if any(deps):
            yield [list(d) for d in deps]


def configs(tier, seed):
    out = []
    rng = random.Random(seed)
    for n in (3,) if tier == "quick" else (3, 4):
        dags = list(all_dags(n))
        for di, deps in enumerate(dags):
            for oi, order in enumerate(itertools.permutations(range(n))):
                vocs = (0, 1, 2) if n == 3 else (rng.randrange(3),)
                for voc in vocs:
                    out.append({"name": f"n{n}-dag{di}-order{oi}-voc{voc}", "n": n, "deps": deps, "order": list(order),
                                "voc": voc, "nested": (di + oi + voc) % 2 == 1, "updates": 2 if tier == "quick" else 3})
    # restoring a recorded parameter set (as create_result does after a failed run): expression parameters flagged non-negative
    # travel through the optimiser's logarithmic space in the history - after the restore they must again equal their expression
    for oi, order in enumerate(([0, 1, 2], [2, 1, 0])):
        for voc in (0, 1):
            out.append({"name": f"history-n3-order{oi}-voc{voc}", "n": 3, "deps": [[], [0], [0, 1]], "order": order, "voc": voc, "nested": bool(oi),
                        "updates": 2, "history": True, "nn_expr": True})
    # life cycle: expressions assigned to *existing* Parameter objects (an expression re-defined; a plain parameter turned into an
    # expression parameter) - afterwards every stage must follow the current expression, never the one from construction
    for di, deps in enumerate(([[], [0], [0, 1]], [[], [], [0, 1]], [[], [0], [1]])):
        for oi, order in enumerate(([0, 1, 2], [2, 1, 0], [1, 2, 0])):
            out.append({"name": f"reassign-n3-dag{di}-order{oi}", "n": 3, "deps": deps, "order": order, "voc": (di + oi) % 3,
                        "nested": (di + oi) % 2 == 0, "updates": 2, "reassign": True})
    if tier == "quick":
        # four parameters: the chain and the diamond in dependants-first, dependencies-first and two mixed declaration orders
        for di, deps in enumerate(([[], [0], [1], [2]], [[], [0], [0], [1, 2]], [[], [0], [0, 1], [1, 2]])):
            for oi, order in enumerate(([3, 2, 1, 0], [0, 1, 2, 3], [2, 3, 0, 1], [3, 1, 2, 0])):
                out.append({"name": f"n4-deep{di}-order{oi}", "n": 4, "deps": deps, "order": order, "voc": (di + oi) % 3,
                            "nested": (di + oi) % 2 == 1, "updates": 2})
    # batch configurations to keep process overhead low
    batches = []
    size = 12 if tier == "quick" else 40
    for i in range(0, len(out), size):
        batches.append({"name": f"batch-{i // size}", "items": out[i : i + size]})
    return batches


def _label(cfg, i):
    return (NAMES_NESTED if cfg["nested"] else NAMES_FLAT)[i]


def expression(cfg, i, voc=None):
    """Expression text of node i and a function computing it from dependency values (spec side)."""
    deps = cfg["deps"][i]
    refs = [f"${_label(cfg, j)}" for j in deps]
    voc = cfg["voc"] if voc is None else voc
    if voc == 0:
        text = " + ".join(f"{k + 2} * {r}" for k, r in enumerate(refs)) + " + 1"
        fn = lambda vals, ops: sum((k + 2) * v for k, v in enumerate(vals)) + 1  # noqa: E731
    elif voc == 1:
        text = " * ".join(refs) + " * 3 - " + refs[0]
        fn = lambda vals, ops: math.prod(vals[1:], start=vals[0]) * 3 - vals[0]  # noqa: E731
    else:
        text = f"exp({refs[0]}) / 2" + "".join(f" - {r} / 4" for r in refs[1:])
        fn = lambda vals, ops: ops["exp"](vals[0]) / 2 - sum(v / 4 for v in vals[1:])  # noqa: E731
    return text, fn


def build(cfg, value_of):
    """Parameters object in the configuration's declaration order; plain values from value_of(i)."""
    from glotaran.parameter import Parameter
    from glotaran.parameter import Parameters

    params = {}
    redefine = []
    for i in cfg["order"]:
        lab = _label(cfg, i)
        if cfg["deps"][i] and cfg.get("reassign") and i % 2 == 1:
            # life cycle "re-defined": the parameter starts with another expression (other vocabulary) ...
            params[lab] = Parameter(label=lab, expression=expression(cfg, i, (cfg["voc"] + 1) % 3)[0])
            redefine.append(i)
        elif cfg["deps"][i] and cfg.get("reassign"):
            # ... or as a plain, free parameter that is turned into an expression parameter afterwards
            params[lab] = Parameter(label=lab, value=0.75)
            redefine.append(i)
        elif cfg["deps"][i]:
            params[lab] = Parameter(label=lab, expression=expression(cfg, i)[0], non_negative=bool(cfg.get("nn_expr")))
        else:
            p = Parameter(label=lab, value=1.0)
            p.value = value_of(i)
            params[lab] = p
    ps = Parameters(params)
    for i in redefine:
        # plain attribute assignment on the existing object (tweaking a loaded parameter set), then the documented update call
        ps.get(_label(cfg, i)).expression = expression(cfg, i)[0]
    if redefine:
        ps.update_parameter_expression()
    return ps


def spec_values(cfg, plain, ops):
    vals = {}
    for i in range(cfg["n"]):
        if cfg["deps"][i]:
            vals[i] = expression(cfg, i)[1]([vals[j] for j in cfg["deps"][i]], ops)
        else:
            vals[i] = plain[i]
    return vals


def run_config(batch, rec):
    import glotaran.parameter.parameters as pm
    import glotaran.parameter.parameter as pp

    rec.encodes(pm.Parameters.__init__, pm.Parameters.update_parameter_expression, pm.Parameters.copy,
                pm.Parameters.set_from_label_and_value_arrays, pm.Parameters.get_label_value_and_bounds_arrays,
                pp.set_transformed_expression, pp.Parameter.set_value_from_optimization)
    rec.assume_note("expression graphs acyclic; plain parameters without non-negative flag; real asteval interpreter executed")
    with Patcher() as p:
        install_numeric_shims(p)
        rec.shims += p.record
        rec.each(batch["items"], lambda cfg: _run_one(cfg, rec))


def _run_one(cfg, rec):
    n = cfg["n"]
    plain_idx = [i for i in range(n) if not cfg["deps"][i]]

    def fn2(ctx):
        ops = {"exp": lambda t: ctx.uf("exp", t)}
        rec_stages = []

        def record(name, ps, plain):
            got = {i: ps.get(_label(cfg, i)).value for i in range(n)}
            ps.update_parameter_expression()
            again = {i: ps.get(_label(cfg, i)).value for i in range(n)}
            rec_stages.append((name, got, again, dict(plain)))

        with warnings.catch_warnings():
            warnings.simplefilter("ignore")
            cur = {i: sym(f"V_{i}") for i in plain_idx}
            params = build(cfg, lambda i: cur[i])
            record("construction", params, cur)
            free_labels = [_label(cfg, i) for i in cfg["order"] if i in plain_idx]
            hist, snaps = None, []
            if cfg.get("history"):
                from glotaran.parameter.parameter_history import ParameterHistory

                hist = ParameterHistory()
                hist.append(params)
                snaps.append(dict(cur))
            for u in range(cfg["updates"]):
                x = SymArray((len(free_labels),))
                for k, lab in enumerate(free_labels):
                    i = [j for j in plain_idx if _label(cfg, j) == lab][0]
                    cur[i] = sym(f"U{u}_{i}")
                    x[k] = cur[i]
                params.set_from_label_and_value_arrays(free_labels, x)
                record(f"update {u + 1}", params, cur)
                if hist is not None:
                    hist.append(params)
                    snaps.append(dict(cur))
                if u == 0:
                    record("copy", params.copy(), cur)
                    # the optimiser works on a copy: updating the copy follows the copy's values and leaves the original alone
                    cp = params.copy()
                    curz = dict(cur)
                    z = SymArray((len(free_labels),))
                    for k, lab in enumerate(free_labels):
                        i = [j for j in plain_idx if _label(cfg, j) == lab][0]
                        curz[i] = sym(f"Z_{i}")
                        z[k] = curz[i]
                    cp.set_from_label_and_value_arrays(free_labels, z)
                    record("copy updated", cp, curz)
                    record("original after the copy was updated", params, cur)
            if hist is not None:
                for r_ in (1, 0):
                    params.set_from_history(hist, r_)
                    record(f"update restored from history record {r_}", params, snaps[r_])
                    cur = dict(snaps[r_])
            # partial updates as in finite-difference steps: one entry changes, the others keep their value
            for k0 in range(len(free_labels) if hist is None else 0):
                x = SymArray((len(free_labels),))
                for k, lab in enumerate(free_labels):
                    i = [j for j in plain_idx if _label(cfg, j) == lab][0]
                    if k == k0:
                        cur[i] = sym(f"W{k0}_{i}")
                    x[k] = cur[i]
                params.set_from_label_and_value_arrays(free_labels, x)
                record(f"update partial {k0}", params, cur)
        return rec_stages, ops

    for ctx, (kind, out) in core.explore(fn2, rec.stats, max_paths=50 if cfg["n"] < 4 else 400):
        rec.witness_path(ctx)
        wit = lambda mm, cfg=cfg: {"env": model_env(mm), "item": cfg}  # noqa: E731
        if kind == "exc":
            rec.unexpected(ctx, f"{cfg['name']}: {type(out).__name__}: {out}", "expressions:exception", wit)
            continue
        stages, ops = out
        items = []
        for name, got, again, plain in stages:
            want = spec_values(cfg, {i: plain[i].e for i in plain}, ops)
            for i in range(n):
                g = got[i]
                if not isinstance(g, SymReal):
                    ok = False
                    if isinstance(g, float) and not cfg["deps"][i]:
                        ok = True
                    goal = z3.BoolVal(ok)
                elif "restored" in name and cfg["deps"][i]:
                    # through the optimiser's log space: equal up to the documented 1e-10 guard of the logarithm at value 1
                    w_ = want[i] if isinstance(want[i], z3.ExprRef) else zreal(want[i])
                    d_ = g.e - w_
                    aw_ = z3.If(w_ >= 0, w_, -w_)
                    goal = z3.And(d_ <= z3.Q(1, 10**9) * aw_, -d_ <= z3.Q(1, 10**9) * aw_)
                else:
                    goal = core.cross_eq(g.e, want[i] if isinstance(want[i], z3.ExprRef) else zreal(want[i]))
                stage_kind = "construction" if name == "construction" else "copy" if "copy" in name else "update"
                items.append((f"after {stage_kind}: every parameter equals its expression on the current values",
                              goal, f"expressions:stale-after-{stage_kind}"))
                a = again[i]
                same = isinstance(a, SymReal) and isinstance(g, SymReal) and (a.e.eq(g.e) or core.poly_zero(a.e, g.e))
                items.append(("updating twice changes nothing", z3.BoolVal(bool(same)) if not same else z3.BoolVal(True),
                              f"expressions:second-update-changes-{stage_kind}"))
        rec.check_all(ctx, items, wit)
        rec.want_sample() and rec.sample({"config": cfg["name"], "declaration_order": [_label(cfg, i) for i in cfg["order"]],
                    "expressions": {_label(cfg, i): expression(cfg, i)[0] for i in range(n) if cfg["deps"][i]}})
        env = {f"V_{i}": 0.5 + 0.25 * i for i in range(n)}
        env.update({f"U{u}_{i}": 0.3 + 0.2 * i + 0.15 * u for u in range(cfg["updates"]) for i in range(n)})
        env.update({f"W{k0}_{i}": 0.9 + 0.3 * i + 0.1 * k0 for k0 in range(n) for i in range(n)})
        env.update({f"Z_{i}": 1.4 + 0.35 * i for i in range(n)})
        expected = {}
        for name, got, again, plain in stages:
            expected[name] = [core.evalf(zreal(got[i]), env) if isinstance(got[i], SymReal) else float(got[i]) for i in range(n)]
        rec.validations.append((cfg["name"], dict(env, __item=cfg), expected)) if len(rec.validations) < 4 else None


# ------------------------------------------------------------------------------------------------ float side
def _float_stages(cfg, env):
    n = cfg["n"]
    plain_idx = [i for i in range(n) if not cfg["deps"][i]]
    out = {}
    with warnings.catch_warnings():
        warnings.simplefilter("ignore")
        cur = {i: float(env.get(f"V_{i}", 0.5 + 0.25 * i)) for i in plain_idx}
        params = build(cfg, lambda i: cur[i])
        out["construction"] = ([params.get(_label(cfg, i)).value for i in range(n)], dict(cur))
        free_labels = [_label(cfg, i) for i in cfg["order"] if i in plain_idx]
        hist, snaps = None, []
        if cfg.get("history"):
            from glotaran.parameter.parameter_history import ParameterHistory

            hist = ParameterHistory()
            hist.append(params)
            snaps.append(dict(cur))
        for u in range(cfg["updates"]):
            x = []
            for lab in free_labels:
                i = [j for j in plain_idx if _label(cfg, j) == lab][0]
                cur[i] = float(env.get(f"U{u}_{i}", 0.3 + 0.2 * i + 0.15 * u))
                x.append(cur[i])
            params.set_from_label_and_value_arrays(free_labels, np.array(x))
            out[f"update {u + 1}"] = ([params.get(_label(cfg, i)).value for i in range(n)], dict(cur))
            if hist is not None:
                hist.append(params)
                snaps.append(dict(cur))
            if u == 0:
                cp = params.copy()
                out["copy"] = ([cp.get(_label(cfg, i)).value for i in range(n)], dict(cur))
                cp = params.copy()
                curz = dict(cur)
                z = []
                for lab in free_labels:
                    i = [j for j in plain_idx if _label(cfg, j) == lab][0]
                    curz[i] = float(env.get(f"Z_{i}", 1.4 + 0.35 * i))
                    z.append(curz[i])
                cp.set_from_label_and_value_arrays(free_labels, np.array(z))
                out["copy updated"] = ([cp.get(_label(cfg, i)).value for i in range(n)], dict(curz))
                out["original after the copy was updated"] = ([params.get(_label(cfg, i)).value for i in range(n)], dict(cur))
        if hist is not None:
            for r_ in (1, 0):
                params.set_from_history(hist, r_)
                out[f"update restored from history record {r_}"] = ([params.get(_label(cfg, i)).value for i in range(n)], dict(snaps[r_]))
                cur = dict(snaps[r_])
        for k0 in range(len(free_labels) if hist is None else 0):
            x = []
            for k, lab in enumerate(free_labels):
                i = [j for j in plain_idx if _label(cfg, j) == lab][0]
                if k == k0:
                    cur[i] = float(env.get(f"W{k0}_{i}", 0.9 + 0.3 * i + 0.1 * k0))
                x.append(cur[i])
            params.set_from_label_and_value_arrays(free_labels, np.array(x))
            out[f"update partial {k0}"] = ([params.get(_label(cfg, i)).value for i in range(n)], dict(cur))
    return out


def concrete(batch, env):
    cfg = env["__item"]
    return {k: [float(x) for x in v[0]] for k, v in _float_stages(cfg, env).items()}


def replay(data):
    cfg = data.get("item") or data["cfg"]["items"][0]
    env = data.get("env", {})
    ops = {"exp": math.exp}
    for trial in (env, {}):
        try:
            stages = _float_stages(cfg, trial)
        except Exception as ex:  # noqa: BLE001
            return True, f"{cfg['name']}: {type(ex).__name__}: {ex}"
        for name, (vals, plain) in stages.items():
            want = spec_values(cfg, plain, ops)
            for i in range(cfg["n"]):
                v, w = float(vals[i]), float(want[i])
                if not (abs(v - w) <= 1e-9 * max(1, abs(w))):
                    decl = ", ".join(f"{_label(cfg, j)}={'$expr ' + expression(cfg, j)[0] if cfg['deps'][j] else plain[j]}" for j in cfg["order"])
                    return True, f"parameters [{decl}] after {name}: {_label(cfg, i)} = {v}, its expression gives {w}"
    return False, "all expression parameters consistent"
