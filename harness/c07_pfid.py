"""C07, PFID part: the perturbed-free-induction-decay columns are the anti-causal oscillation convolved with the Gaussian IRF.

Real ``PFIDMegacomplex.calculate_matrix`` on terms (complex values as SymComplex, complex erf as the UF pair of c07_basis).  Per
(global index i, time point t) the cosine / sine columns must be Re / Im of
    - sum_g s_g exp((-tau_g + k sigma_g^2 / 2) k) (1 + erf((tau_g - k sigma_g^2) / (-sigma_g sqrt 2))) / sum_g s_g,
k = rate + i (nu_i - f') 0.03 2 pi,  tau_g = t - (mu_g - shift_i),  for tau_g < 5 sigma_g and 0 beyond (rate < 0: the signal lives
before the pulse), with f' the frequency after the dataset's spectral-axis scale / inversion and nu_i the global axis value - i.e.
the same effective IRF position per index as the decay model of the dataset.
"""
from __future__ import annotations

import types
import warnings

import numpy as np
import z3

from symx import core
from symx.env import Patcher
from symx.run import model_env
from symx.values import sym
from symx.values import zreal

MOD = "glotaran.builtin.megacomplexes.pfid.pfid_megacomplex"


def configs(tier):
    out = []
    for ngauss, shifted, axis in [(1, True, "plain"), (2, False, "plain"), (1, False, "scaled"), (1, False, "inverted")]:
        out.append({"name": f"pfid-{ngauss}gauss-{'shifted' if shifted else 'noshift'}-{axis}", "kind": "pfid", "ngauss": ngauss,
                    "shifted": shifted, "axis": axis})
    return out


def build(cfg, val, param):
    from glotaran.builtin.megacomplexes.decay.irf import IrfMultiGaussian
    from glotaran.builtin.megacomplexes.pfid.pfid_megacomplex import PFIDMegacomplex

    ng = cfg["ngauss"]
    irf = IrfMultiGaussian(label="irf", center=[param(f"mu{g}", val(f"mu{g}")) for g in range(ng)],
                           width=[param(f"sig{g}", val(f"sig{g}")) for g in range(ng)],
                           scale=[param(f"sc{g}", val(f"sc{g}")) for g in range(ng)] if ng > 1 else None,
                           shift=[param("sh0", val("sh0")), param("sh1", val("sh1"))] if cfg["shifted"] else None)
    mc = PFIDMegacomplex(label="pf", labels=["p0"], frequencies=[param("f0", val("f0"))], rates=[param("g0", val("g0"))])
    dm = types.SimpleNamespace(label="d1", irf=irf, spectral_axis_inverted=cfg["axis"] == "inverted",
                               spectral_axis_scale=val("ax") if cfg["axis"] != "plain" else 1)
    return mc, dm


def run(cfg, rec, c07):
    import glotaran.builtin.megacomplexes.pfid.pfid_megacomplex as pf

    ng = cfg["ngauss"]
    W = zreal(0.03) * 2 * zreal(float(np.pi))
    S2 = zreal(float(np.sqrt(2)))
    rec.encodes(pf.PFIDMegacomplex.calculate_matrix, pf.calculate_pfid_matrix_gaussian_irf_on_index, pf.calculate_pfid_matrix_gaussian_irf)

    def fn(ctx):
        with Patcher() as p, warnings.catch_warnings():
            warnings.simplefilter("ignore")
            c07.install(p)
            from symx.env import install_numeric_shims

            install_numeric_shims(p, modules=[MOD])
            p.set(pf, "erf", c07.erf_shim_for(p), "scipy.special.erf -> complex error function as a pair of uninterpreted functions")
            if not any("pfid" in r for r in rec.shims):
                rec.shims += p.record
            ctx.lazy_axioms = True
            vals = {}

            def val(nm):
                vals[nm] = sym(nm)
                return vals[nm]

            mc, dm = build(cfg, val, c07._param)
            t = c07._axis(ctx, "t", 2)
            nu = c07._axis(ctx, "nu", 2)
            for g in range(ng):
                ctx.assume(vals[f"sig{g}"].e > 0)
                if ng > 1:
                    ctx.assume(vals[f"sc{g}"].e > 0)
            ctx.assume(vals["g0"].e < 0)  # dephasing rates are negative (documented); other signs are outside the kernel
            if cfg["axis"] != "plain":
                ctx.assume(vals["ax"].e > 0)
                ctx.assume(vals["ax"].e != 1)
            if cfg["axis"] == "inverted":
                ctx.assume(vals["f0"].e > 0)
            # the cut itself (tau exactly 5 sigma) is outside the claim: a measure-zero set on which '<' and '<=' differ by 1e-6 of the peak
            for gi in range(2):
                for a in range(2):
                    for g in range(ng):
                        ctx.assume(t[a].e - (vals[f"mu{g}"].e - (vals[f"sh{gi}"].e if cfg["shifted"] else 0)) != 5 * vals[f"sig{g}"].e)
            labels, matrix = mc.calculate_matrix(dm, nu, t)
        return labels, matrix, vals, t, nu

    def cmul(a, b):
        return (a[0] * b[0] - a[1] * b[1], a[0] * b[1] + a[1] * b[0])

    fr = z3.Function("cerf_re", z3.RealSort(), z3.RealSort(), z3.RealSort())
    fi = z3.Function("cerf_im", z3.RealSort(), z3.RealSort(), z3.RealSort())
    for ctx, (kind, out) in core.explore(fn, rec.stats, max_paths=600):
        rec.witness_path(ctx)
        wit = lambda mm: {"env": model_env(mm)}  # noqa: E731
        if kind == "exc":
            rec.unexpected(ctx, f"{type(out).__name__}: {out}", "basis:pfid:exception", wit)
            continue
        labels, matrix, vals, t, nu = out
        matrix = np.asarray(matrix, dtype=object)
        f_eff = vals["f0"].e
        if cfg["axis"] == "inverted":
            f_eff = vals["ax"].e / vals["f0"].e
        elif cfg["axis"] == "scaled":
            f_eff = vals["f0"].e * vals["ax"].e
        items = [("labels: one cosine and one sine column, matrix per global index",
                  z3.BoolVal(list(labels) == ["p0_cos", "p0_sin"] and matrix.shape == (2, 2, 2)), "basis:pfid:labels")]
        if matrix.shape == (2, 2, 2):
            for gi in range(2):
                k = (vals["g0"].e, (nu[gi].e - f_eff) * W)
                for a in range(2):
                    tot = (z3.RealVal(0), z3.RealVal(0))
                    for g in range(ng):
                        sig = vals[f"sig{g}"].e
                        tau = t[a].e - (vals[f"mu{g}"].e - (vals[f"sh{gi}"].e if cfg["shifted"] else 0))
                        cond = tau < 5 * sig
                        inside = ctx.implied(cond)
                        if inside is False:
                            continue
                        dk = (k[0] * sig * sig, k[1] * sig * sig)
                        e_arg = cmul((-tau + dk[0] / 2, dk[1] / 2), k)
                        mag = ctx.uf("exp", e_arg[0])
                        aa = (mag * ctx.uf("cos", e_arg[1]), mag * ctx.uf("sin", e_arg[1]))
                        zr, zi = z3.simplify((tau - dk[0]) / (-S2 * sig)), z3.simplify((-dk[1]) / (-S2 * sig))
                        bb = (1 + fr(zr, zi), fi(zr, zi))
                        term = cmul(aa, bb)
                        sc = vals[f"sc{g}"].e if ng > 1 else z3.RealVal(1)
                        if inside is None:
                            term = (z3.If(cond, term[0], 0), z3.If(cond, term[1], 0))
                        tot = (tot[0] - sc * term[0], tot[1] - sc * term[1])
                    norm = z3.Sum([vals[f"sc{g}"].e for g in range(ng)]) if ng > 1 else z3.RealVal(1)
                    items.append(("PFID cosine column = Re of minus the IRF-convolved anti-causal oscillation at detuning nu_i - f "
                                  "(0 beyond 5 sigma after the pulse), at centre - shift_i",
                                  core.cross_eq(zreal(matrix[gi, a, 0]), tot[0] / norm), "basis:pfid:cos"))
                    items.append(("PFID sine column = Im of the same", core.cross_eq(zreal(matrix[gi, a, 1]), tot[1] / norm), "basis:pfid:sin"))
        rec.check_all(ctx, items, wit)
        rec.want_sample() and rec.sample({"pc": [str(c)[:80] for c in ctx.pc][:4], "cos00": str(zreal(matrix.flat[0]))[:160]})
    rec.validate("pfid", {}, {"ok": True})


def float_case(cfg, rng, c07, env=None, wide=False):
    """Real float PFID matrix against the closed form with scipy's complex erf at a generic point.  `env`: a solver model - its
    *geometry* (IRF centres, widths, shifts, time points: what decides on which side of the 5-sigma cut a point lies) is used,
    frequencies and rates stay generic.  `wide`: shifts of several IRF widths in either direction."""
    from scipy.special import erf as cerf

    ng = cfg["ngauss"]
    sh_rng = 1.6 if wide else 0.3
    v = {"f0": float(rng.uniform(1500, 1700)), "g0": -float(rng.uniform(0.2, 3)), "sh0": float(rng.uniform(-sh_rng, sh_rng)),
         "sh1": float(rng.uniform(-sh_rng, sh_rng)), "ax": float(rng.uniform(0.5, 0.9))}
    if cfg["axis"] == "inverted":
        v["ax"] = 1e7
        v["f0"] = float(rng.uniform(5800, 6600))  # nm -> cm^-1 around 1500-1700
    for g in range(ng):
        v.update({f"mu{g}": float(rng.uniform(-0.2, 0.4)), f"sig{g}": float(rng.uniform(0.05, 0.3)), f"sc{g}": float(rng.uniform(0.5, 2))})
    t = np.array([float(rng.uniform(-2.0, -0.2)), float(rng.uniform(0.0, 2.5))])
    if env:
        try:
            geo = {k: float(env[k]) for k in list(v) if k[:2] in ("sh", "mu", "si") and k in env}
            tt = [float(env[f"t{a}"]) for a in range(2)]
            if all(abs(x) < 1e3 for x in list(geo.values()) + tt) and all(geo.get(f"sig{g}", 1) > 1e-3 for g in range(ng)) and tt[0] < tt[1]:
                v.update(geo)
                t = np.array(tt)
        except (KeyError, TypeError, ValueError):
            pass
    mc, dm = build(cfg, lambda nm: v[nm], c07._param)
    f_eff = v["ax"] / v["f0"] if cfg["axis"] == "inverted" else v["f0"] * v["ax"] if cfg["axis"] == "scaled" else v["f0"]
    nu = np.sort(f_eff + rng.uniform(-30, 30, 2))
    labels, m = mc.calculate_matrix(dm, nu, t)
    if list(labels) != ["p0_cos", "p0_sin"]:
        return True, f"{cfg['name']}: labels {labels}"
    for gi in range(2):
        kk = v["g0"] + 1j * (nu[gi] - f_eff) * 0.03 * 2 * np.pi
        for a in range(2):
            tot = 0j
            for g in range(ng):
                sig = v[f"sig{g}"]
                tau = t[a] - (v[f"mu{g}"] - (v[f"sh{gi}"] if cfg["shifted"] else 0.0))
                if tau < 5 * sig:
                    tot -= (v[f"sc{g}"] if ng > 1 else 1.0) * np.exp((-tau + 0.5 * kk * sig * sig) * kk) * (
                        1 + cerf((tau - kk * sig * sig) / (-np.sqrt(2) * sig)))
            tot /= sum(v[f"sc{g}"] for g in range(ng)) if ng > 1 else 1.0
            row = m[gi, a]
            if not np.allclose([row[0], row[1]], [tot.real, tot.imag], rtol=1e-7, atol=1e-10):
                return True, (f"{cfg['name']} parameters {v}: PFID columns at t={t[a]}, global value {nu[gi]} are {row.tolist()}, closed form "
                              f"{[tot.real, tot.imag]}")
    return False, "ok"
