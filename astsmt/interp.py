"""AST -> SMT (theory of strings) symbolic interpreter for the run-numbering functions of pyglotaran (C18 ii).

Operator overloading cannot follow f-strings, ``str.replace``, ``re`` or ``Path.stem``, so the *current source* of
ProjectResultRegistry.previous_result_paths / create_result_run_name / _latest_result_path_fallback and of
Project.get_latest_result_path is parsed with ``ast`` on every run and interpreted over z3 string / integer / boolean
terms.  Only the constructs these functions use are implemented; anything else raises ``EncodingLost`` (reported as a
harness error: a refactoring is neither a pass nor a violation).

Model of the environment: the results directory holds N folder names d_0..d_{N-1} (symbolic strings over a small
alphabet, each present or not).  ``glob(prefix + '*')`` = present names with that prefix; ``sorted(...)[-1]`` =
lexicographic maximum; ``.stem`` = the name (no '.' in the alphabet); ``int()`` = Python's grammar over the alphabet
(digits with single interior underscores); ``:04`` formatting = fresh zero-padded digit string tied by str.to_int;
``str.replace(prefix, '')`` is exact on the sub-domain where the remainder does not contain the prefix again.
"""
from __future__ import annotations

import ast
import inspect
import subprocess
import tempfile
import textwrap

import z3

ALPHABET = "ab_run01"
Z3BIN = "/usr/bin/z3"


class EncodingLost(Exception):
    pass


class PyException(Exception):
    """Symbolic path that raises a Python exception (kind) under condition ``cond``."""


def lex_le(a, b):
    return z3.Or(a == b, z3.StrLE(a, b)) if hasattr(z3, "StrLE") else a <= b


DIGIT = z3.Range("0", "9")


def re_int_literal():
    """Python int() grammar restricted to the alphabet: digits with single interior underscores."""
    digits = z3.Plus(DIGIT)
    return z3.Concat(digits, z3.Star(z3.Concat(z3.Re("_"), digits)))


def regex_literal(text):
    """Tiny regex -> z3 for the literal pieces used by the registry: plain characters, \\d, .+, {n}, trailing $."""
    parts = []
    i = 0
    allc = z3.AllChar(z3.ReSort(z3.StringSort()))
    while i < len(text):
        c = text[i]
        if c == "\\" and i + 1 < len(text) and text[i + 1] == "d":
            atom, i = DIGIT, i + 2
        elif c == "." and i + 1 < len(text) and text[i + 1] == "+":
            parts.append(z3.Plus(allc))
            i += 2
            continue
        elif c == "$" and i == len(text) - 1:
            i += 1
            continue
        elif c in "\\.+*?()[]|^$":
            raise EncodingLost(f"regex construct {c!r} in {text!r}")
        else:
            atom, i = z3.Re(c), i + 1
        if i < len(text) and text[i] == "{":
            j = text.index("}", i)
            n = int(text[i + 1:j])
            atom, i = z3.Loop(atom, n, n), j + 1
        parts.append(atom)
    if not parts:
        return z3.Re("")
    return z3.Concat(*parts) if len(parts) > 1 else parts[0]


class Env:
    """Symbolic file system + side constraints collected during interpretation."""

    def __init__(self, ndirs):
        self.names = [z3.String(f"d{i}") for i in range(ndirs)]
        self.present = [z3.Bool(f"present{i}") for i in range(ndirs)]
        self.constraints = []
        self.raises = []  # (condition, description): the code raises an exception when condition holds
        self.outside = []  # conditions placing an input outside the exactly-modelled sub-domain
        self.fresh = 0
        self.hint_digits = []  # concrete digit strings for which valid lemmas are instantiated (they help the solver)

    def new_str(self, hint):
        self.fresh += 1
        return z3.String(f"{hint}!{self.fresh}")

    def new_int(self, hint):
        self.fresh += 1
        return z3.Int(f"{hint}!{self.fresh}")


class GuardedList:
    """List whose i-th candidate element is present under guard[i] (used for glob results)."""

    def __init__(self, items, sorted_=False):
        self.items = items  # list of (guard, string term)
        self.sorted = sorted_

    def nonempty(self):
        return z3.Or([g for g, _ in self.items]) if self.items else z3.BoolVal(False)


class Interp:
    def __init__(self, env, funcs, self_obj):
        self.env = env
        self.funcs = funcs  # name -> ast.FunctionDef (methods callable through self)
        self.self_obj = self_obj  # attribute values of `self`
        self.cur_guard = z3.BoolVal(True)

    # ------------------------------------------------------------------ expressions
    def ev(self, node, loc):
        e = self.env
        if isinstance(node, ast.Constant):
            if isinstance(node.value, str):
                return z3.StringVal(node.value)
            if isinstance(node.value, bool):
                return z3.BoolVal(node.value)
            if isinstance(node.value, int):
                return z3.IntVal(node.value)
            if node.value is None:
                return None
        if isinstance(node, ast.Name):
            if node.id in loc:
                return loc[node.id]
            if node.id == "re":
                return "re-module"
            if node.id == "Path":
                return "Path"
            raise EncodingLost(f"unknown name {node.id}")
        if isinstance(node, ast.JoinedStr):
            parts = []
            for v in node.values:
                if isinstance(v, ast.Constant):
                    parts.append(z3.StringVal(v.value))
                elif isinstance(v, ast.FormattedValue):
                    val = self.ev(v.value, loc)
                    if v.conversion == 114:  # !r  (only inside messages)
                        parts.append(z3.StringVal("<repr>"))
                        continue
                    if v.format_spec is None:
                        if z3.is_string(val):
                            parts.append(val)
                        else:
                            raise EncodingLost("f-string of a non-string without format spec")
                    else:
                        spec = "".join(c.value for c in v.format_spec.values if isinstance(c, ast.Constant))
                        if spec == "04" and z3.is_int(val):
                            w = e.new_str("pad")
                            e.constraints += [z3.InRe(w, z3.Plus(DIGIT)), z3.StrToInt(w) == val, z3.Length(w) >= 4,
                                              z3.Implies(z3.Length(w) > 4, z3.Not(z3.PrefixOf(z3.StringVal("0"), w)))]
                            for g in e.hint_digits:  # valid lemmas: the padded rendering of a concrete number
                                for k in (int(g), int(g) + 1):
                                    if k < 10000:
                                        e.constraints.append(z3.Implies(val == k, w == z3.StringVal(f"{k:04}")))
                            parts.append(w)
                        else:
                            raise EncodingLost(f"format spec {spec!r}")
                else:
                    raise EncodingLost("f-string part")
            return z3.Concat(*parts) if len(parts) > 1 else parts[0]
        if isinstance(node, ast.BinOp):
            a, b = self.ev(node.left, loc), self.ev(node.right, loc)
            if isinstance(node.op, ast.Add) and z3.is_int(a) and z3.is_int(b):
                return a + b
            if isinstance(node.op, ast.Div) and isinstance(a, tuple) and a[0] == "dir":
                return ("path", b)  # self._directory / name
            raise EncodingLost("binary operator")
        if isinstance(node, ast.Attribute):
            if (isinstance(node.value, ast.Attribute) and isinstance(node.value.value, ast.Name) and node.value.value.id == "self"
                    and node.value.attr == "_result_registry"):
                if node.attr in self.self_obj:
                    return self.self_obj[node.attr]
                raise EncodingLost(f"self._result_registry.{node.attr}")
            if isinstance(node.value, ast.Name) and node.value.id == "self":
                if node.attr in self.self_obj:
                    return self.self_obj[node.attr]
                raise EncodingLost(f"self.{node.attr}")
            v = self.ev(node.value, loc)
            if node.attr == "name" and isinstance(v, tuple) and v[0] == "path":
                return v[1]
            if node.attr == "stem":
                if isinstance(v, tuple) and v[0] == "path":
                    return v[1]  # no '.' in the alphabet: stem == name
                if z3.is_string(v):
                    return v
            raise EncodingLost(f"attribute {node.attr}")
        if isinstance(node, ast.Subscript):
            v = self.ev(node.value, loc)
            idx = node.slice
            if (z3.is_string(v) and isinstance(idx, ast.Slice) and idx.upper is None and idx.step is None
                    and isinstance(idx.lower, ast.UnaryOp) and isinstance(idx.lower.op, ast.USub)
                    and isinstance(idx.lower.operand, ast.Constant) and isinstance(idx.lower.operand.value, int)):
                k = idx.lower.operand.value  # s[-k:]: the last k characters (the whole string when shorter)
                r = z3.If(z3.Length(v) >= k, z3.SubString(v, z3.Length(v) - k, k), v)
                for g in e.hint_digits:  # valid lemma: a string ending in the k characters g has g as its last k characters
                    if len(g) == k:
                        e.constraints.append(z3.Implies(z3.SuffixOf(z3.StringVal(g), v), r == z3.StringVal(g)))
                return r
            if isinstance(v, GuardedList) and isinstance(idx, ast.UnaryOp) and isinstance(idx.op, ast.USub) and v.sorted:
                r = e.new_str("last")
                alts = []
                for g, s in v.items:
                    alts.append(z3.And(g, r == s, z3.And([z3.Implies(g2, lex_le(s2, s)) for g2, s2 in v.items])))
                e.constraints.append(z3.Implies(v.nonempty(), z3.Or(alts)))
                return ("path", r)
            raise EncodingLost("subscript")
        if isinstance(node, ast.BoolOp) and isinstance(node.op, ast.Or) and len(node.values) == 2:
            a = self.ev(node.values[0], loc)
            b = self.ev(node.values[1], loc)
            if isinstance(a, GuardedList) and isinstance(b, GuardedList):
                # `glob_result or [Path(name)]`
                ne = a.nonempty()
                return GuardedList(list(a.items) + [(z3.And(z3.Not(ne), g), s) for g, s in b.items], sorted_=True)
            raise EncodingLost("or")
        if isinstance(node, ast.List):
            items = []
            for el in node.elts:
                v = self.ev(el, loc)
                items.append((z3.BoolVal(True), v[1] if isinstance(v, tuple) else v))
            return GuardedList(items, sorted_=True)
        if isinstance(node, ast.UnaryOp) and isinstance(node.op, ast.Not):
            v = self.ev(node.operand, loc)
            if isinstance(v, GuardedList):
                return z3.Not(v.nonempty())
            return z3.Not(v)
        if isinstance(node, ast.Compare) and len(node.ops) == 1:
            a, b = self.ev(node.left, loc), self.ev(node.comparators[0], loc)
            if isinstance(node.ops[0], ast.IsNot) and b is None and isinstance(a, tuple) and a[0] == "match":
                return a[1]
            if isinstance(node.ops[0], ast.Is) and b is None and isinstance(a, tuple) and a[0] == "match":
                return z3.Not(a[1])
            if isinstance(node.ops[0], ast.Is) and b is None:
                return a if z3.is_bool(a) else EncodingLost  # `re.match(...) is None` -> a already is "no match"
            if isinstance(node.ops[0], ast.Is) and isinstance(b, z3.BoolRef):
                return a == b
            raise EncodingLost("comparison")
        if isinstance(node, ast.GeneratorExp) or isinstance(node, ast.ListComp):
            if len(node.generators) != 1 or not isinstance(node.generators[0].target, ast.Name):
                raise EncodingLost("comprehension shape")
            gen = node.generators[0]
            src_list = self.ev(gen.iter, loc)
            if not isinstance(src_list, GuardedList):
                raise EncodingLost("comprehension source")
            items = []
            for g, sname in src_list.items:
                loc2 = dict(loc)
                loc2[gen.target.id] = ("path", sname)
                cond = z3.BoolVal(True)
                for test in gen.ifs:
                    c = self.ev(test, loc2)
                    cond = z3.And(cond, c[1] if isinstance(c, tuple) else c)
                val = self.ev(node.elt, loc2)
                items.append((z3.And(g, cond), val[1] if isinstance(val, tuple) else val))
            return GuardedList(items)
        if isinstance(node, ast.Call):
            return self.call(node, loc)
        raise EncodingLost(f"expression {type(node).__name__}")

    def regex(self, pat):
        """Translate the literal result pattern(s) used by the registry."""
        if isinstance(pat, tuple) and pat[0] == "regex":
            return "<compiled>", pat[1]
        if z3.is_string_value(pat):
            pat = pat.as_string()
        src = pat if isinstance(pat, str) else getattr(pat, "pattern", None)
        table = {
            r".+_run_\d{4}$": z3.Concat(z3.Plus(z3.AllChar(z3.ReSort(z3.StringSort()))), z3.Re("_run_"), z3.Loop(DIGIT, 4, 4)),
            r"_run_\d{4}$": None,
        }
        if src not in table:
            raise EncodingLost(f"regular expression {src!r}")
        return src, table[src]

    def call(self, node, loc):
        e = self.env
        f = node.func
        if isinstance(f, ast.Name):
            if f.id == "sorted":
                v = self.ev(node.args[0], loc)
                if isinstance(v, GuardedList):
                    return GuardedList(v.items, sorted_=True)
            if f.id == "int":
                s = self.ev(node.args[0], loc)
                ok = z3.InRe(s, re_int_literal())
                e.raises.append((z3.And(self.cur_guard, z3.Not(ok)), "int() of a non-numeric run suffix"))
                n = e.new_int("n")
                e.constraints.append(z3.Implies(z3.And(ok, z3.Not(z3.Contains(s, z3.StringVal("_")))), n == z3.StrToInt(s)))
                e.constraints.append(n >= 0)
                for g in e.hint_digits:  # valid lemma: int("0009") == 9
                    e.constraints.append(z3.Implies(s == z3.StringVal(g), n == int(g)))
                return n
            if f.id == "Path":
                return ("path", self.ev(node.args[0], loc))
            if f.id in ("warn", "UserWarning"):
                return None
            if f.id == "list":
                return None
            raise EncodingLost(f"call {f.id}")
        if isinstance(f, ast.Attribute):
            # self.method(...) / self._result_registry.method(...)
            is_self = isinstance(f.value, ast.Name) and f.value.id == "self"
            is_reg = (isinstance(f.value, ast.Attribute) and isinstance(f.value.value, ast.Name) and f.value.value.id == "self"
                      and f.value.attr == "_result_registry")
            if (is_self or is_reg) and f.attr in self.funcs:
                return self.run(self.funcs[f.attr], [self.ev(a, loc) for a in node.args],
                                {k.arg: self.ev(k.value, loc) for k in node.keywords})
            if isinstance(f.value, ast.Name) and f.value.id == "self" and f.attr in self.funcs:
                return self.run(self.funcs[f.attr], [self.ev(a, loc) for a in node.args],
                                {k.arg: self.ev(k.value, loc) for k in node.keywords})
            if isinstance(f.value, ast.Name) and f.value.id == "self" and f.attr == "is_item":
                v = self.ev(node.args[0], loc)
                name = v[1]
                return z3.Or([z3.And(p, d == name) for p, d in zip(e.present, e.names)])
            if isinstance(f.value, ast.Name) and f.value.id == "re":
                if f.attr == "compile":
                    arg = node.args[0]
                    if isinstance(arg, ast.JoinedStr):
                        parts = []
                        for v in arg.values:
                            if isinstance(v, ast.Constant):
                                parts.append(regex_literal(v.value))
                            elif (isinstance(v, ast.FormattedValue) and isinstance(v.value, ast.Call) and isinstance(v.value.func, ast.Attribute)
                                  and v.value.func.attr == "escape"):
                                parts.append(z3.Re(self.ev(v.value.args[0], loc)))  # re.escape(x): x literally
                            else:
                                raise EncodingLost("re.compile of an f-string with an unescaped value")
                        return ("regex", z3.Concat(*parts) if len(parts) > 1 else parts[0])
                    if isinstance(arg, ast.Constant):
                        return ("regex", regex_literal(arg.value))
                    raise EncodingLost("re.compile argument")
                if f.attr == "match":
                    _, rx = self.regex(self.ev(node.args[0], loc))
                    return z3.Not(z3.InRe(self.ev(node.args[1], loc), rx))  # value of `re.match(...) is None`
                if f.attr == "sub":
                    src, rx = self.regex(self.ev(node.args[0], loc))
                    s = self.ev(node.args[2], loc)
                    repl = self.ev(node.args[1], loc)
                    if src == r".+_run_\d{4}$":
                        return z3.If(z3.InRe(s, rx), repl, s)
                    # r"_run_\d{4}$": strip the (fixed length) suffix
                    has = z3.InRe(s, z3.Concat(z3.Star(z3.AllChar(z3.ReSort(z3.StringSort()))), z3.Re("_run_"), z3.Loop(DIGIT, 4, 4)))
                    return z3.If(has, z3.Concat(z3.SubString(s, 0, z3.Length(s) - 9), repl), s)
            v = self.ev(f.value, loc)
            if f.attr == "relative_to" and isinstance(v, tuple) and v[0] == "path":
                base = self.ev(node.args[0], loc)
                if isinstance(base, tuple) and base[0] == "dir":
                    return v  # paths of the flat model are already names relative to the registry directory
                raise EncodingLost("relative_to a path other than the registry directory")
            if f.attr == "as_posix" and isinstance(v, tuple) and v[0] == "path":
                return v[1]  # no separator in the alphabet: the posix rendering of a relative one-component path is its name
            if f.attr == "fullmatch" and isinstance(v, tuple) and v[0] == "regex":
                a = self.ev(node.args[0], loc)
                return ("match", z3.InRe(a[1] if isinstance(a, tuple) else a, v[1]))
            if f.attr == "glob" and isinstance(v, tuple) and v[0] == "dir":
                pat = node.args[0]
                if not (isinstance(pat, ast.JoinedStr) and isinstance(pat.values[-1], ast.Constant) and pat.values[-1].value.endswith("*")):
                    raise EncodingLost("glob pattern")
                fixed = ast.JoinedStr(values=pat.values[:-1] + [ast.Constant(value=pat.values[-1].value[:-1])])
                prefix = self.ev(fixed, loc)
                return GuardedList([(z3.And(p, z3.PrefixOf(prefix, d)), d) for p, d in zip(e.present, e.names)])
            if f.attr == "replace" and z3.is_string(v):
                a = self.ev(node.args[0], loc)
                b = self.ev(node.args[1], loc)
                if not (z3.is_string_value(b) and b.as_string() == ""):
                    raise EncodingLost("replace with non-empty string")
                # exact where v starts with a and the remainder does not contain a again
                rest = z3.SubString(v, z3.Length(a), z3.Length(v) - z3.Length(a))
                e.outside.append(z3.And(self.cur_guard, z3.Or(z3.Not(z3.PrefixOf(a, v)), z3.Contains(rest, a))))
                for g in e.hint_digits:  # valid lemma: (a ++ g) with the prefix a removed is g
                    e.constraints.append(z3.Implies(v == z3.Concat(a, z3.StringVal(g)), rest == z3.StringVal(g)))
                return rest
            if f.attr == "keys":
                return None
            raise EncodingLost(f"method {f.attr}")
        raise EncodingLost("call")

    # ------------------------------------------------------------------ statements
    def run(self, fn, args, kwargs=None):
        loc = {}
        params = [a.arg for a in fn.args.args if a.arg != "self"] + [a.arg for a in fn.args.kwonlyargs]
        for p, a in zip(params, args):
            loc[p] = a
        for k, v in (kwargs or {}).items():
            loc[k] = v
        for a, d in zip(fn.args.kwonlyargs, fn.args.kw_defaults):
            if a.arg not in loc and d is not None:
                loc[a.arg] = self.ev(d, loc)
        return self.block(fn.body, loc, z3.BoolVal(True))

    def block(self, body, loc, guard):
        """Returns the returned value as an ITE-merged term (or None)."""
        e = self.env
        for i, st in enumerate(body):
            self.cur_guard = guard
            if isinstance(st, ast.Expr):
                if isinstance(st.value, ast.Constant):
                    continue  # docstring
                self.ev(st.value, loc)
            elif isinstance(st, ast.Assign) and isinstance(st.targets[0], ast.Name):
                loc[st.targets[0].id] = self.ev(st.value, loc)
            elif isinstance(st, ast.Return):
                return self.ev(st.value, loc)
            elif isinstance(st, ast.Raise):
                e.raises.append((guard, "explicit raise: " + ast.unparse(st.exc)[:40]))
                return None
            elif isinstance(st, ast.If):
                c = self.ev(st.test, loc)
                if isinstance(c, GuardedList):
                    c = c.nonempty()
                loc_t, loc_f = dict(loc), dict(loc)
                rt = self.block(st.body, loc_t, z3.And(guard, c))
                rf = self.block(st.orelse, loc_f, z3.And(guard, z3.Not(c))) if st.orelse else None
                then_returns = any(isinstance(s, (ast.Return, ast.Raise)) for s in st.body)
                else_returns = bool(st.orelse) and any(isinstance(s, (ast.Return, ast.Raise)) for s in st.orelse)
                rest = body[i + 1:]
                if then_returns and not else_returns:
                    r_rest = self.block(rest, loc_f, z3.And(guard, z3.Not(c)))
                    return self.merge(c, rt, r_rest)
                if else_returns and not then_returns:
                    r_rest = self.block(rest, loc_t, z3.And(guard, c))
                    return self.merge(c, r_rest, rf)
                if then_returns and else_returns:
                    return self.merge(c, rt, rf)
                # neither returns: merge locals
                for k in set(loc_t) | set(loc_f):
                    a, b = loc_t.get(k), loc_f.get(k)
                    loc[k] = a if a is b else self.merge(c, a, b)
            else:
                raise EncodingLost(f"statement {type(st).__name__}")
        return None

    def merge(self, c, a, b):
        if a is None:
            return b
        if b is None:
            return a
        if isinstance(a, tuple) and isinstance(b, tuple) and a[0] == b[0] == "path":
            return ("path", z3.If(c, a[1], b[1]))
        if isinstance(a, tuple) or isinstance(b, tuple):
            raise EncodingLost("merging path and non-path")
        return z3.If(c, a, b)


def load_functions():
    from glotaran.project.project import Project
    from glotaran.project.project_result_registry import ProjectResultRegistry

    funcs = {}
    for cls, names in ((ProjectResultRegistry, ["previous_result_paths", "create_result_run_name", "_latest_result_path_fallback"]),
                       (Project, ["get_latest_result_path", "get_result_path"])):
        for n in names:
            src = textwrap.dedent(inspect.getsource(getattr(cls, n)))
            funcs[n] = ast.parse(src).body[0]
    return funcs, ProjectResultRegistry.result_pattern.pattern


def alphabet_constraint(s, maxlen):
    chars = z3.Union(*[z3.Re(c) for c in ALPHABET])
    return z3.And(z3.InRe(s, z3.Star(chars)), z3.Length(s) <= maxlen)


def solve(assertions, timeout_s=40):
    """Decide with the z3 4.8.12 binary (its string solver answers where newer ones hang). Returns (status, model text)."""
    s = z3.Solver()
    for a in assertions:
        s.add(a)
    body = s.to_smt2().replace("(check-sat)", "")

    def run(text):
        with tempfile.NamedTemporaryFile("w", suffix=".smt2", delete=False) as f:
            f.write(text)
            path = f.name
        try:
            return subprocess.run([Z3BIN, f"-T:{timeout_s}", path], capture_output=True, text=True, timeout=timeout_s + 10).stdout
        except subprocess.TimeoutExpired:
            return "timeout"
        finally:
            import os

            os.unlink(path)

    out = run(body + "\n(check-sat)\n")
    lines = out.strip().splitlines()
    first = lines[0].strip() if lines else "unknown"
    if "(error" in out or first not in ("sat", "unsat"):
        return "unknown", out  # any solver error makes the answer inconclusive
    if first == "sat":
        out = run("(set-option :produce-models true)\n" + body + "\n(check-sat)\n(get-model)\n")
        if not out.strip().startswith("sat"):
            return "unknown", out
    return first, out


def parse_model(text, names):
    import re as _re

    vals = {}
    for n in names:
        m = _re.search(r"\(define-fun " + _re.escape(n) + r" \(\) (String|Bool|Int)\s+(\"(?:[^\"]|\"\")*\"|true|false|\d+|\(- \d+\))\)", text)
        if m:
            v = m.group(2)
            vals[n] = v[1:-1].replace('""', '"') if v.startswith('"') else (v == "true") if v in ("true", "false") else v
    return vals
