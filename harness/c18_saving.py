"""C18 - saving never destroys existing files unless asked (overwrite protection part).

The real save_model / save_parameters / save_scheme / save_result / save_dataset and protect_from_overwrite run
against a *symbolic file system*: whether the target is a file, a directory, non-empty, whether the parent is a
file - and allow_overwrite - are solver booleans (forks); the format is explicit-known / explicit-unknown /
inferred-known / inferred-unknown / no extension; the plugin writes, or writes and then raises.
Query on every path: exists AND NOT allow_overwrite  =>  FileExistsError AND no plugin write AND no mkdir of the target.
(The run-numbering part of C18 is decided in harness c18 'runs' configurations, see DESIGN.md.)
"""
from __future__ import annotations

import ast
import os
import warnings

import z3

from symx import core
from symx.env import Patcher
from symx.run import model_env
from symx.values import SymBool

BOUNDS = {
    "quick": "5 save functions x 5 format situations x plugin {writes, writes then raises}; target state (is file / is "
    "directory / directory non-empty / parent is a file) and allow_overwrite symbolic booleans; run numbering: see runs-*",
    "thorough": "same (the space is finite and fully enumerated by the solver-guided forks)",
}
OUTSIDE = ("byte identity of files (the shim has no byte content: the claim is that no write call and no mkdir of the target "
           "is reached); concurrent writers; names with glob metacharacters; more than 9999 runs")


FLOAT_SELFCHECK = True


def preload():
    import glotaran.plugin_system.data_io_registration  # noqa: F401
    import glotaran.plugin_system.project_io_registration  # noqa: F401
    import glotaran.testing.plugin_system  # noqa: F401


SAVES = ["save_model", "save_parameters", "save_scheme", "save_result", "save_dataset"]
FORMATS = ["explicit-known", "explicit-unknown", "inferred-known", "inferred-unknown", "no-extension"]


def configs(tier, seed):
    out = []
    for fn in SAVES:
        for fmt in FORMATS:
            for fail in (False, True):
                out.append({"name": f"{fn}-{fmt}-{'plugin-raises' if fail else 'plugin-writes'}", "kind": "overwrite", "fn": fn,
                            "fmt": fmt, "fail": fail})
    out.append({"name": "protect-direct", "kind": "protect"})
    batches = []
    for i in range(0, len(out), 6):
        batches.append({"name": f"batch-{i // 6}", "items": out[i : i + 6]})
    for c in runs_configs(tier):
        batches.append({"name": c["name"], "items": [c]})
    # concrete scenarios on the real Project / registry objects (sampling; their state is not in the string-solver encoding)
    batches.append({"name": "project-registry-save-refuses", "items": [{"name": "project-registry-save-refuses", "kind": "project", "what": "save"}]})
    batches.append({"name": "project-nested-result-names", "items": [{"name": "project-nested-result-names", "kind": "project", "what": "nested"}]})
    batches.append({"name": "project-nested-runs-stay-intact", "items": [{"name": "project-nested-runs-stay-intact", "kind": "project",
                                                                          "what": "nested-intact"}]})
    return batches


class SymFS:
    """Answers of the file system about one target path, as solver booleans."""

    def __init__(self, ctx, target):
        self.ctx = ctx
        self.target = target
        self.is_file = SymBool(z3.Bool("target_is_file"))
        self.is_dir = SymBool(z3.Bool("target_is_dir"))
        # content of the target when it is a folder: plain files and / or sub-folders (non-empty = either)
        self.has_file = SymBool(z3.Bool("dir_has_file"))
        self.has_subdir = SymBool(z3.Bool("dir_has_subdir"))
        self.nonempty = SymBool(z3.Or(self.has_file.e, self.has_subdir.e))
        self.parent_is_file = SymBool(z3.Bool("parent_is_file"))
        ctx.assume(z3.Not(z3.And(self.is_file.e, self.is_dir.e)))
        ctx.assume(z3.Implies(self.nonempty.e, self.is_dir.e))
        ctx.assume(z3.Implies(self.parent_is_file.e, z3.And(z3.Not(self.is_file.e), z3.Not(self.is_dir.e))))
        self.mkdirs = []
        self.writes = []

    def listing(self):
        """Names in the target folder (forks on the two content booleans)."""
        return (["precious.txt"] if self.has_file else []) + (["subfolder"] if self.has_subdir else [])


def _fake_path_class(fs: SymFS):
    import pathlib

    class FakePath:
        def __init__(self, p):
            self._p = pathlib.PurePosixPath(os.fspath(p) if not isinstance(p, FakePath) else p._p)

        def resolve(self):
            return FakePath(self._p if self._p.is_absolute() else pathlib.PurePosixPath("/cwd") / self._p)

        @property
        def parent(self):
            return FakePath(self._p.parent)

        def _is_target(self):
            return self._p.name == pathlib.PurePosixPath(fs.target).name

        def iterdir(self):
            if not self._is_target():
                return iter(())
            return iter([FakePath(self._p / n) for n in fs.listing()])

        def __truediv__(self, other):
            return FakePath(self._p / os.fspath(other))

        def exists(self):
            return self.is_file() or self.is_dir()

        def is_file(self):
            if self._p.parent.name == pathlib.PurePosixPath(fs.target).name:
                return self._p.name == "precious.txt"
            if self._is_target():
                return fs.is_file
            if pathlib.PurePosixPath(fs.target).parent.name == self._p.name:
                return fs.parent_is_file
            return False

        def is_dir(self):
            if self._p.parent.name == pathlib.PurePosixPath(fs.target).name:
                return self._p.name == "subfolder"
            return fs.is_dir if self._is_target() else True

        def mkdir(self, parents=False, exist_ok=False):
            fs.mkdirs.append(str(self._p))

        def as_posix(self):
            return self._p.as_posix()

        def __fspath__(self):
            return str(self._p)

        def __str__(self):
            return str(self._p)

        def __repr__(self):
            return f"FakePath({str(self._p)!r})"

    return FakePath


def _run_item(cfg, rec):
    import glotaran.plugin_system.io_plugin_utils as iu
    from glotaran.io.interface import DataIoInterface
    from glotaran.io.interface import ProjectIoInterface
    from glotaran.plugin_system import data_io_registration as dr
    from glotaran.plugin_system import project_io_registration as pr
    from glotaran.testing import plugin_system as tps

    fnname, fmt, fail = cfg["fn"], cfg["fmt"], cfg["fail"]
    target = {"explicit-known": "/work/out/target.dat", "explicit-unknown": "/work/out/target.dat",
              "inferred-known": "/work/out/target.vfmt", "inferred-unknown": "/work/out/target.zzz",
              "no-extension": "/work/out/target"}[fmt]
    format_name = {"explicit-known": "vfmt", "explicit-unknown": "nope"}.get(fmt)

    def fn(ctx):
        fs = SymFS(ctx, target)
        allow = SymBool(z3.Bool("allow_overwrite"))
        log = fs.writes

        def writer(self, *a, **kw):
            log.append("write")
            if fail:
                raise OSError("disk full (injected)")

        data_cls = type("VData", (DataIoInterface,), {"__module__": "verif.c18.data", "save_dataset": writer})
        proj_cls = type("VProj", (ProjectIoInterface,), {"__module__": "verif.c18.proj", "save_model": writer,
                                                         "save_parameters": writer, "save_scheme": writer,
                                                         "save_result": lambda self, *a, **kw: (writer(self), [])[1]})
        with Patcher() as p, warnings.catch_warnings():
            warnings.simplefilter("ignore")
            p.set(iu, "Path", _fake_path_class(fs), "pathlib.Path in io_plugin_utils -> symbolic file system")
            fake_os = type("FakeOs", (), {"__getattr__": lambda self, n: getattr(os, n),
                                          "listdir": lambda self, d: fs.listing(),
                                          "scandir": lambda self, d: iter([_fake_path_class(fs)(os.path.join(os.fspath(d), n)) for n in fs.listing()])})()
            p.set(iu, "os", fake_os, "os.listdir in io_plugin_utils -> symbolic directory content")
            if not rec.shims:
                rec.shims += p.record
            with tps.monkeypatch_plugin_registry_data_io(test_data_io={"vfmt": data_cls("vfmt")}, create_new_registry=True), \
                    tps.monkeypatch_plugin_registry_project_io(test_project_io={"vfmt": proj_cls("vfmt")}, create_new_registry=True):
                obj = _dummy(fnname)
                try:
                    if fnname == "save_dataset":
                        dr.save_dataset(obj, target, format_name, allow_overwrite=allow)
                    else:
                        getattr(pr, fnname)(obj, target, format_name, allow_overwrite=allow)
                    exc = None
                except Exception as ex:  # noqa: BLE001
                    exc = ex
        return fs, allow, exc

    for ctx, (kind, out) in core.explore(fn, rec.stats, max_paths=200):
        rec.witness_path(ctx)
        wit = lambda mm, cfg=cfg: {"env": {str(d): bool(mm[d]) for d in mm.decls() if z3.is_bool(mm[d])}, "item": cfg}  # noqa: E731
        if kind == "exc":
            rec.unexpected(ctx, f"{cfg['name']}: {type(out).__name__}: {out}", "overwrite:exception", wit)
            continue
        fs, allow, exc = out
        exists = z3.Or(fs.is_file.e, z3.And(fs.is_dir.e, fs.nonempty.e))
        protected = z3.And(exists, z3.Not(allow.e))
        refused = isinstance(exc, FileExistsError)
        wrote = bool(fs.writes)
        target_mkdir = any(m.rstrip("/").endswith(os.path.basename(target)) and os.path.basename(target) == os.path.basename(m)
                           for m in fs.mkdirs)
        items = [
            ("target exists (file, or non-empty folder) and allow_overwrite not set  =>  FileExistsError, nothing written, target not created",
             z3.Implies(protected, z3.BoolVal(refused and not wrote and not target_mkdir)), f"overwrite:{cfg['fn']}:not-protected"),
            ("FileExistsError only when the target exists and allow_overwrite is not set",
             z3.Implies(z3.BoolVal(refused), protected), f"overwrite:{cfg['fn']}:spurious-refusal"),
        ]
        known = fmt in ("explicit-known", "inferred-known")
        if known:
            items.append(("when saving is permitted the resolved plugin is called exactly once (its own failure propagates)",
                          z3.Implies(z3.Not(protected), z3.BoolVal(len(fs.writes) == 1 and (isinstance(exc, OSError) if fail else exc is None))),
                          f"overwrite:{cfg['fn']}:dispatch"))
        else:
            items.append(("unknown / undeterminable format: ValueError, nothing written",
                          z3.Implies(z3.Not(protected), z3.BoolVal(isinstance(exc, ValueError) and not wrote)),
                          f"overwrite:{cfg['fn']}:unknown-format"))
        rec.check_all(ctx, items, wit)
        rec.want_sample() and rec.sample({"item": cfg["name"], "pc": [str(c) for c in ctx.pc], "raised": type(exc).__name__ if exc else None,
                    "plugin_writes": len(fs.writes), "mkdirs": fs.mkdirs})
    if len(rec.validations) < 3:
        rec.validations.append((cfg["name"], {"__item": cfg}, {"ok": True}))


def _dummy(fnname):
    import numpy as np
    import xarray as xr

    if fnname == "save_dataset":
        return xr.Dataset({"data": (("a", "b"), np.zeros((1, 1)))})

    class Obj:
        source_path = None

    return Obj()


def _run_protect(rec):
    import glotaran.plugin_system.io_plugin_utils as iu

    target = "/work/out/target.dat"

    def fn(ctx):
        fs = SymFS(ctx, target)
        allow = SymBool(z3.Bool("allow_overwrite"))
        with Patcher() as p:
            p.set(iu, "Path", _fake_path_class(fs), "pathlib.Path -> symbolic file system")
            fake_os = type("FakeOs", (), {"__getattr__": lambda self, n: getattr(os, n),
                                          "listdir": lambda self, d: fs.listing(),
                                          "scandir": lambda self, d: iter([_fake_path_class(fs)(os.path.join(os.fspath(d), n)) for n in fs.listing()])})()
            p.set(iu, "os", fake_os, "os.listdir -> symbolic")
            try:
                iu.protect_from_overwrite(target, allow_overwrite=allow)
                exc = None
            except Exception as ex:  # noqa: BLE001
                exc = ex
        return fs, allow, exc

    for ctx, (kind, out) in core.explore(fn, rec.stats, max_paths=100):
        rec.witness_path(ctx)
        wit = lambda mm: {"env": {str(d): bool(mm[d]) for d in mm.decls() if z3.is_bool(mm[d])}, "item": {"name": "protect-direct", "kind": "protect"}}  # noqa: E731
        if kind == "exc":
            rec.unexpected(ctx, f"protect: {type(out).__name__}: {out}", "overwrite:exception", wit)
            continue
        fs, allow, exc = out
        exists = z3.Or(fs.is_file.e, z3.And(fs.is_dir.e, fs.nonempty.e))
        protected = z3.And(exists, z3.Not(allow.e))
        items = [("protect_from_overwrite raises FileExistsError iff target exists (file / non-empty folder) and not allow_overwrite",
                  protected == z3.BoolVal(isinstance(exc, FileExistsError)), "overwrite:protect:iff"),
                 ("protect_from_overwrite never creates the target itself", z3.BoolVal(all(not m.endswith("target.dat") for m in fs.mkdirs)),
                  "overwrite:protect:mkdir-target")]
        rec.check_all(ctx, items, wit)
        rec.want_sample() and rec.sample({"pc": [str(c) for c in ctx.pc], "raised": type(exc).__name__ if exc else None, "mkdirs": fs.mkdirs})


def run_config(batch, rec):
    import glotaran.plugin_system.io_plugin_utils as iu
    from glotaran.plugin_system import data_io_registration as dr
    from glotaran.plugin_system import project_io_registration as pr

    rec.encodes(iu.protect_from_overwrite, iu.infer_file_format, pr.save_model, pr.save_parameters, pr.save_scheme, pr.save_result,
                dr.save_dataset)
    rec.assume_note("file system answers are solver booleans constrained only by consistency (not file and directory at once; "
                    "non-empty implies directory; parent-is-a-file implies target absent)")
    if batch["items"][0]["kind"] == "project":
        # nothing symbolic: decided by the float scenario of `replay` (FLOAT_SELFCHECK).  The nested/dotted-name scenario was a known
        # finding (runs:nested-result-name-renumbering) until the fix commit; the fingerprint is kept so a regression is still reported.
        if batch["items"][0]["what"] == "nested":
            rec.fp_override = "runs:nested-result-name-renumbering"
        rec.assume_note("project scenarios: concrete histories on real Project objects (sampling)")
        rec.stats.paths += 1
        rec.witnessed += 1
        rec.obligations += 1
        rec.fast += 1
        return
    rec.each(batch["items"], lambda cfg: _run_runs(cfg, rec) if cfg["kind"] == "runs" else _run_protect(rec) if cfg["kind"] == "protect"
             else _run_item(cfg, rec))


# ------------------------------------------------------------------------------------------------ float side: real FS replay
def concrete(batch, env):
    return {"ok": True}


def replay(data):
    """Replay on a real temporary directory with the real pathlib / os."""
    import tempfile
    from pathlib import Path

    from glotaran.io.interface import DataIoInterface
    from glotaran.io.interface import ProjectIoInterface
    from glotaran.plugin_system import data_io_registration as dr
    from glotaran.plugin_system import io_plugin_utils as iu
    from glotaran.plugin_system import project_io_registration as pr
    from glotaran.testing import plugin_system as tps

    if data.get("item") is None and len(data["cfg"].get("items", [])) > 1:
        for it_ in data["cfg"]["items"]:
            for env_ in ({"target_is_file": True}, {"target_is_dir": True, "dir_has_file": True}, {"target_is_dir": True, "dir_has_subdir": True},
                         {"target_is_file": True, "allow_overwrite": True}, {}):
                v, d = replay({"item": it_, "env": env_, "cfg": data["cfg"]})
                if v:
                    return v, d
        return False, "overwrite protection scenarios behave as documented"
    cfg = data.get("item") or data["cfg"]["items"][0]
    if cfg.get("kind") == "project":
        return _replay_project_save() if cfg["what"] == "save" else _replay_project_nested(only=cfg["what"])
    if cfg.get("kind") == "runs":
        return _replay_runs(dict(data, cfg=cfg))
    env = data.get("env", {})
    with tempfile.TemporaryDirectory() as d:
        base = Path(d) / "out"
        name = {"explicit-known": "target.dat", "explicit-unknown": "target.dat", "inferred-known": "target.vfmt",
                "inferred-unknown": "target.zzz", "no-extension": "target"}.get(cfg.get("fmt"), "target.dat")
        target = base / name
        if env.get("parent_is_file"):
            base.parent.mkdir(parents=True, exist_ok=True)
            base.write_text("i am a file")
        else:
            base.mkdir(parents=True)
            if env.get("target_is_file"):
                target.write_text("precious")
            elif env.get("target_is_dir"):
                target.mkdir()
                if env.get("dir_has_file") or env.get("dir_nonempty"):
                    (target / "precious.txt").write_text("precious")
                if env.get("dir_has_subdir"):
                    (target / "subfolder").mkdir()
        allow = bool(env.get("allow_overwrite"))
        before = {str(p): (p.read_bytes() if p.is_file() else None) for p in Path(d).rglob("*")}
        writes = []

        def writer(self, *a, **kw):
            writes.append(1)
            if cfg.get("fail"):
                raise OSError("disk full (injected)")

        data_cls = type("VData", (DataIoInterface,), {"__module__": "verif.c18.data", "save_dataset": writer})
        proj_cls = type("VProj", (ProjectIoInterface,), {"__module__": "verif.c18.proj", "save_model": writer, "save_parameters": writer,
                                                         "save_scheme": writer, "save_result": lambda self, *a, **kw: (writer(self), [])[1]})
        fmt = {"explicit-known": "vfmt", "explicit-unknown": "nope"}.get(cfg.get("fmt"))
        exc = None
        with tps.monkeypatch_plugin_registry_data_io(test_data_io={"vfmt": data_cls("vfmt")}, create_new_registry=True), \
                tps.monkeypatch_plugin_registry_project_io(test_project_io={"vfmt": proj_cls("vfmt")}, create_new_registry=True):
            try:
                if cfg["kind"] == "protect":
                    iu.protect_from_overwrite(target, allow_overwrite=allow)
                elif cfg["fn"] == "save_dataset":
                    dr.save_dataset(_dummy("save_dataset"), target, fmt, allow_overwrite=allow)
                else:
                    getattr(pr, cfg["fn"])(_dummy(cfg["fn"]), target, fmt, allow_overwrite=allow)
            except Exception as ex:  # noqa: BLE001
                exc = ex
        exists = bool(env.get("target_is_file")) or (bool(env.get("target_is_dir")) and bool(
            env.get("dir_nonempty") or env.get("dir_has_file") or env.get("dir_has_subdir")))
        after = {str(p): (p.read_bytes() if p.is_file() else None) for p in Path(d).rglob("*")}
        state = f"{cfg.get('name')}: state {env}"
        if exists and not allow:
            if not isinstance(exc, FileExistsError) or writes or any(before[k] != after.get(k) for k in before):
                return True, f"{state}: expected FileExistsError with nothing written, got {exc!r}, plugin writes={len(writes)}"
        elif isinstance(exc, FileExistsError):
            return True, f"{state}: spurious FileExistsError"
        return False, f"{state}: behaves as documented ({exc!r})"


# ================================================================================================ run numbering (strings)
def runs_configs(tier):
    L = 3 if tier == "quick" else 4
    out = []
    digit_sets = [["0000"], ["0009"], ["0000", "0001"], ["0010", "0009"], ["0001", "0001"]]
    if tier == "thorough":
        digit_sets += [["0123", "0099"], ["0007", "0012"], ["0099", "0100"]]
    for ds_ in digit_sets:
        tag = "-".join(ds_)
        # two-folder create queries: decided in 10-40 s each when run alone (numbering goal as a lemma for freshness + the suffix-
        # splitting lemma), but under the quick tier's parallel load they hit the 60 s solver cap - thorough tier only
        if len(ds_) == 1 or tier == "thorough":
            out.append({"name": f"runs-create-{tag}", "kind": "runs", "what": "create", "ndirs": len(ds_), "maxlen": L, "digits": ds_})
        if len(ds_) == 2:
            out.append({"name": f"runs-fallback-{tag}", "kind": "runs", "what": "fallback", "ndirs": 2, "maxlen": L, "digits": ds_})
            out.append({"name": f"runs-latest-{tag}", "kind": "runs", "what": "latest", "ndirs": 2, "maxlen": L, "digits": ds_})
    return out


def _runs_setup(cfg):
    """Interpret the current source; returns dict of terms and side conditions."""
    from astsmt import interp as I

    funcs, pat = I.load_functions()
    env = I.Env(cfg["ndirs"])
    env.hint_digits = list(cfg["digits"])
    it = I.Interp(env, funcs, {"directory": ("dir",), "_directory": ("dir",), "result_pattern": pat, "items": None})
    base = z3.String("base")
    L = cfg["maxlen"]
    names = [z3.String(f"n{i}") for i in range(cfg["ndirs"])]
    digs = [z3.StringVal(g) for g in cfg["digits"]]  # run numbers are enumerated per configuration, names stay symbolic
    wf = [I.alphabet_constraint(base, L), z3.Length(base) >= 1, z3.Not(z3.Contains(base, z3.StringVal("_run_0"))),
          z3.Not(z3.Contains(base, z3.StringVal("_run_1")))]
    for i in range(cfg["ndirs"]):
        wf += [I.alphabet_constraint(names[i], L + 6), z3.Length(names[i]) >= 1,
               env.names[i] == z3.Concat(names[i], z3.StringVal("_run_"), digs[i])]
    for i in range(cfg["ndirs"]):
        for j in range(i):
            wf.append(z3.Implies(z3.And(env.present[i], env.present[j]), env.names[i] != env.names[j]))
    # valid lemma (helps the string solver): equal names => folders compare like their 4-digit run numbers
    for i in range(cfg["ndirs"]):
        for j in range(cfg["ndirs"]):
            if i != j:
                wf.append(z3.Implies(names[i] == names[j], I.lex_le(env.names[i], env.names[j]) == z3.BoolVal(cfg["digits"][i] <= cfg["digits"][j])))
    exact = [z3.And(env.present[i], names[i] == base) for i in range(cfg["ndirs"])]
    return I, funcs, env, it, base, names, digs, wf, exact


def _run_runs(cfg, rec):
    from astsmt import interp as I  # noqa: N812
    from glotaran.project.project import Project
    from glotaran.project.project_result_registry import ProjectResultRegistry

    rec.encodes(ProjectResultRegistry.previous_result_paths, ProjectResultRegistry.create_result_run_name,
                ProjectResultRegistry._latest_result_path_fallback, Project.get_latest_result_path)
    rec.assume_note("results directory = <= 2 well-formed run folders name_run_dddd, names over the alphabet 'ab_run01' (length <= "
                    "maxlen+6), run numbers enumerated per configuration, result name of length <= maxlen not itself ending in a run specifier; "
                    "str.replace exact only where the remainder does not contain the prefix again (complement reported outside)")
    rec.shims.append("AST -> SMT interpretation of the current source (astsmt.interp), z3 4.8.12 string solver")
    try:
        I_, funcs, env, it, base, names, digs, wf, exact = _runs_setup(cfg)
        what = cfg["what"]
        if what == "create":
            R = it.run(funcs["create_result_run_name"], [base])
        elif what == "fallback":
            R = it.run(funcs["_latest_result_path_fallback"], [base], {"latest": z3.BoolVal(True)})
        else:
            suffix = z3.String("sfx")
            wf.append(z3.Or([suffix == z3.StringVal(g) for g in ("0000", "0003", cfg["digits"][0])]))
            arg = z3.Concat(base, z3.StringVal("_run_"), suffix)
            # valid lemma: cutting the 9 characters of the run suffix from base ++ "_run_dddd" leaves base
            wf.append(z3.SubString(arg, 0, z3.Length(arg) - 9) == base)
            # compositional: (1) the name handed on equals the result name without run suffix, (2) it is handed to the
            # fallback lookup unchanged (AST shape), (3) the fallback lookup itself is decided in the runs-fallback-* configurations
            fn = funcs["get_latest_result_path"]
            body = [st for st in fn.body if not (isinstance(st, ast.Expr) and isinstance(st.value, ast.Constant))]
            loc = {"result_name": arg}
            it.block([st for st in body if isinstance(st, ast.Assign)], loc, z3.BoolVal(True))
            ret = body[-1]
            shape_ok = (isinstance(ret, ast.Return) and isinstance(ret.value, ast.Call) and ast.unparse(ret.value.func) == "self.get_result_path"
                        and ast.unparse(ret.value.args[0]) == "result_name"
                        and any(k.arg == "latest" and ast.unparse(k.value) == "True" for k in ret.value.keywords))
            g = [st for st in funcs["get_result_path"].body if isinstance(st, ast.Return)][0]
            shape_ok = shape_ok and ast.unparse(g.value.func) == "self._result_registry._latest_result_path_fallback" \
                and ast.unparse(g.value.args[0]) == "result_name"
            rec.stats.paths += 1
            for name, goal, fp in [("name handed to the lookup = result name with the run specifier stripped", loc["result_name"] == base, "runs:latest:wrong-run"),
                                   ("the stripped name goes unchanged to the latest-run fallback lookup", z3.BoolVal(bool(shape_ok)), "runs:latest:plumbing")]:
                rec.obligations += 1
                status, out = I.solve(wf + env.constraints + [z3.Not(goal)], timeout_s=60)
                rec.stats.prove[status if status in ("sat", "unsat") else "unknown"] += 1
                if status == "unsat":
                    rec.proved[name] = rec.proved.get(name, 0) + 1
                elif status == "sat":
                    vals = I.parse_model(out, ["base", "sfx"])
                    rec.candidates.append((fp, name, {"env": dict(vals, d0=vals.get("base", "a") + "_run_" + cfg["digits"][0], present0=True), "what": what}))
                else:
                    rec.inconclusive.append(f"{cfg['name']}: {name}: string solver unknown")
                rec.want_sample() and rec.sample({"what": what, "obligation": name, "status": status})
            rec.witnessed += 1
            return
    except I.EncodingLost as ex:
        rec.errors.append(f"{cfg['name']}: encoding lost: {ex}")
        return
    Rname = R[1] if isinstance(R, tuple) else R
    raises = z3.Or([c for c, _ in env.raises]) if env.raises else z3.BoolVal(False)
    outside = z3.Or(env.outside) if env.outside else z3.BoolVal(False)
    n = cfg["ndirs"]
    any_exact = z3.Or(exact)
    # specification from the inputs (quantifier free): digits of the highest run of exactly `base`
    best = digs[n - 1]
    for i in reversed(range(n - 1)):
        better = z3.And(exact[i], z3.And([z3.Or(z3.Not(exact[j]), z3.StrToInt(digs[j]) <= z3.StrToInt(digs[i])) for j in range(n) if j != i]))
        best = z3.If(better, digs[i], best)
    if n > 1:
        last_ok = z3.And(exact[n - 1], z3.And([z3.Or(z3.Not(exact[j]), z3.StrToInt(digs[j]) <= z3.StrToInt(digs[n - 1])) for j in range(n - 1)]))
        # best defaults to the last candidate; correct it when the last one is not exact
        for i in reversed(range(n - 1)):
            best = z3.If(z3.And(z3.Not(exact[n - 1]), exact[i]), z3.If(z3.And([z3.Or(z3.Not(exact[j]), z3.StrToInt(digs[j]) <= z3.StrToInt(digs[i])) for j in range(n - 1) if j != i]), digs[i], best), best)
        del last_ok
    hyp = wf + env.constraints + [z3.Not(outside)]
    goals = []
    prefix = z3.Concat(base, z3.StringVal("_run_"))
    if what == "create":
        sfx_ = z3.SubString(Rname, z3.Length(prefix), 4)
        next_ok = z3.And(z3.PrefixOf(prefix, Rname), z3.Length(Rname) == z3.Length(prefix) + 4, z3.InRe(sfx_, z3.Loop(I.DIGIT, 4, 4)),
                         z3.StrToInt(sfx_) == z3.StrToInt(best) + 1)
        spec = z3.If(any_exact, next_ok, Rname == z3.Concat(base, z3.StringVal("_run_0000")))
        # valid lemma of the theory of strings (helps the solver split suffixes): A ++ "_run_" ++ D == B ++ "_run_" ++ E with
        # |D| = |E| = 4 implies A == B and D == E - instantiated for each existing folder n_i ++ "_run_" ++ dddd and the new name
        for i in range(n):
            hyp.append(z3.Implies(z3.And(z3.PrefixOf(prefix, Rname), z3.Length(Rname) == z3.Length(prefix) + 4, env.names[i] == Rname),
                                  z3.And(names[i] == base, digs[i] == sfx_)))
        goals.append(("saving never raises for a well-formed results folder", z3.Not(raises), "runs:create:exception", []))
        goals.append(("new run number = highest run of exactly this result name + 1 (0000 if none)", z3.Or(raises, spec),
                      "runs:create:wrong-number", []))
        # decided after the numbering goal: once that is proved (unsat) it is a consequence of the hypotheses and may be used as a lemma
        goals.append(("the new run folder does not exist yet", z3.Or(raises, z3.And([z3.Implies(env.present[i], env.names[i] != Rname) for i in range(n)])),
                      "runs:create:not-fresh", []))
    else:
        not_found = z3.Or([c for c, d in env.raises if "explicit raise" in d] or [z3.BoolVal(False)])
        spec = z3.If(any_exact, z3.And(z3.Not(not_found), Rname == z3.Concat(prefix, best)), not_found)
        goals.append(("latest-result lookup resolves to the most recent run of exactly that result name (ValueError if there is none)",
                      spec, f"runs:{what}:wrong-run", []))
    rec.stats.paths += 1
    for name, goal, fp, exvars in goals:
        rec.obligations += 1
        # exists-quantified helper strings (best / next digits) must be chosen by the specification, so the negation is
        # checked with the helper constrained only where the spec constrains it: forall-free by construction of `spec`
        status, out = I.solve(hyp + [z3.Not(goal)] if not exvars else hyp + [z3.ForAll(exvars, z3.Not(goal))], timeout_s=60)
        rec.stats.prove[status if status in ("sat", "unsat") else "unknown"] += 1
        if status == "unsat":
            rec.proved[name] = rec.proved.get(name, 0) + 1
            hyp = hyp + [goal]  # proved from hyp: sound as a lemma for the remaining goals of this configuration
        elif status == "sat":
            vals = I.parse_model(out, ["base", "sfx"] + [f"d{i}" for i in range(n)] + [f"present{i}" for i in range(n)])
            rec.candidates.append((fp, name, {"env": vals, "what": what}))
        else:
            rec.inconclusive.append(f"{cfg['name']}: {name}: string solver unknown")
        rec.want_sample() and rec.sample({"what": what, "obligation": name, "status": status})
    rec.witnessed += 1


def _replay_runs(data):
    import tempfile
    import warnings as _w
    from pathlib import Path

    from glotaran.project.project import Project

    env, what = data.get("env", {}), data.get("what") or data["cfg"]["what"]
    if not env:
        # float self-check: fixed scenarios with result names that share prefixes / contain '_run_'
        for base, dirs in (("a", ["a_run_0000", "a_run_0001", "ab_run_0005"]), ("fit", ["fit_run_0001", "fit_run_b_run_0000"]),
                           ("fit_run_b", ["fit_run_0003", "fit_run_b_run_0000"]), ("x", [])):
            v, detail = _replay_runs({"env": {"base": base, "sfx": "0000", **{f"d{i}": n_ for i, n_ in enumerate(dirs)},
                                              **{f"present{i}": True for i in range(len(dirs))}}, "what": what, "cfg": data["cfg"]})
            if v:
                return v, detail
        if what == "create":
            return _replay_import_data()
        if what == "latest":
            return _replay_project_history()
        return False, "run numbering scenarios behave as documented"
    base = env.get("base", "a")
    dirs = [env.get(f"d{i}") for i in range(3) if env.get(f"present{i}") and env.get(f"d{i}")]
    with tempfile.TemporaryDirectory() as d, _w.catch_warnings():
        _w.simplefilter("ignore")
        project = Project.open(Path(d) / "proj", create_if_not_exist=True)
        resdir = project._result_registry.directory
        for name in dirs:
            (resdir / name).mkdir(parents=True, exist_ok=True)
            (resdir / name / "result.yml").write_text("x")
        exact = sorted(n for n in dirs if n.startswith(base + "_run_") and len(n) == len(base) + 9 and n[-4:].isdigit())
        state = f"results folder {sorted(dirs)}, result name {base!r}"
        if what == "create":
            try:
                new = project._result_registry.create_result_run_name(base)
            except Exception as ex:  # noqa: BLE001
                return True, f"{state}: create_result_run_name raised {type(ex).__name__}: {ex}"
            want = f"{base}_run_{int(exact[-1][-4:]) + 1:04}" if exact else f"{base}_run_0000"
            return (new != want or new in dirs), f"{state}: new run folder {new!r}, expected {want!r}"
        arg = base if what == "fallback" else f"{base}_run_{env.get('sfx', '0000')}"
        try:
            got = project.get_latest_result_path(arg) if what == "latest" else project._result_registry._latest_result_path_fallback(base, latest=True)
            got = Path(got).name
        except ValueError:
            got = None
        except Exception as ex:  # noqa: BLE001
            return True, f"{state}: lookup of {arg!r} raised {type(ex).__name__}: {ex}"
        want = exact[-1] if exact else None
        return got != want, f"{state}: latest result for {arg!r} resolves to {got!r}, expected {want!r}"


def _replay_project_history():
    """Concrete (sampling) history on one real Project object: store a run, look up the latest result, store another run, look up
    again - every lookup must resolve to the most recent run at the time it is made (no stale state between lookups)."""
    import dataclasses
    import tempfile
    import warnings as _w
    from pathlib import Path

    from glotaran.io import save_result
    from glotaran.optimization.optimize import optimize
    from glotaran.project.project import Project
    from glotaran.testing.simulated_data.sequential_spectral_decay import SCHEME

    with tempfile.TemporaryDirectory() as d, _w.catch_warnings():
        _w.simplefilter("ignore")
        result = optimize(dataclasses.replace(SCHEME, maximum_number_function_evaluations=1), verbose=False)
        project = Project.open(Path(d) / "proj", create_if_not_exist=True)
        resdir = project._result_registry.directory
        for run in range(3):
            name = project._result_registry.create_result_run_name("fit")
            if name != f"fit_run_{run:04}":
                return True, f"history step {run}: new run folder {name!r}, expected 'fit_run_{run:04}'"
            save_result(result, resdir / name / "result.yml")
            for how, load in (("load_latest_result('fit')", lambda: project.load_latest_result("fit")),
                              ("load_result('fit', latest=True)", lambda: project.load_result("fit", latest=True)),
                              ("load_latest_result('fit_run_0000')", lambda: project.load_latest_result("fit_run_0000"))):
                got = Path(load().source_path).parent.name
                if got != name:
                    return True, (f"after storing run {name!r} (earlier runs looked up before on the same Project object): {how} was read "
                                  f"from {got!r}")
            early = Path(project.load_result("fit_run_0000").source_path).parent.name
            if early != "fit_run_0000":
                return True, f"after storing run {name!r}: load_result('fit_run_0000') was read from {early!r}"
    return False, "latest-result lookups follow the history"


def _tiny_result():
    import dataclasses
    import warnings as _w

    from glotaran.optimization.optimize import optimize
    from glotaran.testing.simulated_data.sequential_spectral_decay import SCHEME

    with _w.catch_warnings():
        _w.simplefilter("ignore")
        return optimize(dataclasses.replace(SCHEME, maximum_number_function_evaluations=1), verbose=False)


def _tree(d):
    from pathlib import Path

    return {str(p.relative_to(d)): (p.read_bytes() if p.is_file() else None) for p in Path(d).rglob("*")}


def _replay_project_save():
    """ProjectResultRegistry.save is a save function too: if the run folder it is about to use exists and is not empty (a
    numbering collision, a concurrent run) it must refuse with FileExistsError and leave the existing run byte-identical."""
    import tempfile
    import warnings as _w
    from pathlib import Path

    from glotaran.project.project import Project

    with tempfile.TemporaryDirectory() as d, _w.catch_warnings():
        _w.simplefilter("ignore")
        result = _tiny_result()
        project = Project.open(Path(d) / "proj", create_if_not_exist=True)
        reg = project._result_registry
        reg.save("fit", result)
        first = _tree(reg.directory)
        if not any(k.startswith("fit_run_0000") for k in first):
            return True, f"first stored run is not in fit_run_0000: {sorted(first)[:4]}"
        real = reg.create_result_run_name
        reg.create_result_run_name = lambda base_name: "fit_run_0000"  # the numbering hands out an existing run folder
        try:
            try:
                reg.save("fit", result)
                exc = None
            except Exception as ex:  # noqa: BLE001
                exc = ex
        finally:
            reg.create_result_run_name = real
        after = _tree(reg.directory)
        if not isinstance(exc, FileExistsError) or after != first:
            changed = sorted(k for k in first if after.get(k) != first[k])[:4]
            return True, (f"ProjectResultRegistry.save onto an existing, non-empty run folder: raised {exc!r}; files of the earlier run "
                          f"changed: {changed}")
    return False, "registry save refuses to overwrite an existing run"


NESTED_NAMES = ("2024/fit", "fit.v2", "a.b/c.d", "x_run_0001/y", ".hidden")


def _replay_project_nested(only="nested"):
    """Result names with a path separator (a model in a sub folder of models/, or an explicit 'a/b') or a dot ('fit.v2': pathlib's
    `stem` cuts such names): each run gets a fresh, increasing number and the latest-result lookups resolve to the newest run
    (only='nested': reports a refused / mis-numbered run or a wrong lookup); whatever the numbering does, an earlier run is never
    modified (only='nested-intact': reports destruction only, under its own fingerprint)."""
    import tempfile
    import warnings as _w
    from pathlib import Path

    from glotaran.project.project import Project

    for nm in NESTED_NAMES:
        with tempfile.TemporaryDirectory() as d, _w.catch_warnings():
            _w.simplefilter("ignore")
            result = _tiny_result()
            project = Project.open(Path(d) / "proj", create_if_not_exist=True)
            reg = project._result_registry
            for run in range(3):
                before = _tree(reg.directory)
                exc = None
                try:
                    reg.save(nm, result)
                except Exception as ex:  # noqa: BLE001
                    exc = ex
                after = _tree(reg.directory)
                if only == "nested-intact":
                    changed = sorted(k for k, v in before.items() if after.get(k) != v)
                    if changed:
                        return True, f"result name {nm!r}: storing run number {run} modified files of an earlier run: {changed[:4]}"
                    continue
                if exc is not None:
                    return True, (f"result name {nm!r}: storing run number {run} raised {type(exc).__name__} instead of using a fresh run "
                                  f"folder {nm}_run_{run:04} (existing folders: "
                                  f"{sorted(k for k in before if k.endswith(('_run_0000', '_run_0001', '_run_0002')))})")
                if not any(k == f"{nm}_run_{run:04}" for k in after):
                    return True, f"result name {nm!r}: run number {run} not stored under {nm}_run_{run:04}: {sorted(after)[:6]}"
                want = reg.directory / f"{nm}_run_{run:04}"
                for how, look in (("get_latest_result_path(name)", lambda: project.get_latest_result_path(nm)),
                                  ("get_result_path(name, latest=True)", lambda: project.get_result_path(nm, latest=True)),
                                  ("get_latest_result_path(first run)", lambda: project.get_latest_result_path(f"{nm}_run_0000")),
                                  ("get_result_path(first run)", lambda: project.get_result_path(f"{nm}_run_0000"))):
                    try:
                        got = look()
                    except Exception as ex:  # noqa: BLE001
                        return True, f"result name {nm!r} after run {run}: {how} raised {type(ex).__name__}: {str(ex)[:80]}"
                    exp = reg.directory / f"{nm}_run_0000" if how.startswith("get_result_path(first") else want
                    if Path(got) != exp:
                        return True, f"result name {nm!r} after run {run}: {how} resolved to {got} instead of {exp}"
    return False, "nested and dotted result names are numbered and looked up like plain ones"


def _replay_import_data():
    """Concrete (sampling) scenario for Project.import_data - not encoded symbolically (real netCDF writer behind it)."""
    import tempfile
    import warnings as _w
    from pathlib import Path

    import numpy as np
    import xarray as xr

    from glotaran.project.project import Project

    with tempfile.TemporaryDirectory() as d, _w.catch_warnings():
        _w.simplefilter("ignore")
        project = Project.open(Path(d) / "proj", create_if_not_exist=True)
        one = xr.DataArray(np.ones((2, 2)), coords=[("time", [0.0, 1.0]), ("spectral", [1.0, 2.0])]).to_dataset(name="data")
        two = xr.DataArray(np.full((2, 2), 2.0), coords=[("time", [0.0, 1.0]), ("spectral", [1.0, 2.0])]).to_dataset(name="data")
        project.import_data(one, dataset_name="ds")
        f = project._data_registry.directory / "ds.nc"
        before = f.read_bytes()
        project.import_data(two, dataset_name="ds")  # defaults: keep the existing file
        if f.read_bytes() != before:
            return True, "Project.import_data with default flags replaced the existing dataset file data/ds.nc"
        try:
            project.import_data(two, dataset_name="ds", ignore_existing=False)
            return True, "Project.import_data(ignore_existing=False) on an existing dataset did not raise FileExistsError"
        except FileExistsError:
            pass
        if f.read_bytes() != before:
            return True, "Project.import_data(ignore_existing=False) modified the existing file before refusing"
        project.import_data(two, dataset_name="ds", allow_overwrite=True)
        if f.read_bytes() == before:
            return True, "Project.import_data(allow_overwrite=True) did not replace the dataset"
    return False, "import_data keeps / refuses / overwrites as documented"
