"""C07 - oscillation, artifact and spectral basis functions obey their definitions (closed forms).

Decided here (code == documented closed form, for all parameter values):
  * damped oscillation without IRF: the column labelled <osc>_cos is Re exp(-gamma t - i omega t), <osc>_sin is Im of it
    (complex shim: pairs of real terms, cos / sin uninterpreted with sin^2 + cos^2 = 1);
  * coherent artifact: columns g, (c - t)/w^2 g, ((t - c)^2 - w^2)/w^4 g with g = exp(-(t - c)^2 / (2 w^2)),
    c = centre - shift_i (the decay model's effective IRF position) and own-or-IRF width, index dependent or not;
  * spectral shapes: Gaussian amplitude at the location, half maximum at +-FWHM/2, symmetry; skewed Gaussian formula,
    theta <= 0 => 0, skewness ~ 0 dispatch to the Gaussian; inverted / scaled spectral axes.
Outside: oscillation / PFID *with* Gaussian IRF (complex error function), see DESIGN.md.
"""
from __future__ import annotations

import types
import warnings

import numpy as np
import z3

from symx import core
from symx.env import Patcher
from symx.env import install_numeric_shims
from symx.run import model_env
from symx.values import SymArray
from symx.values import SymReal
from symx.values import sym
from symx.values import zreal

BOUNDS = {
    "quick": "oscillation: 1-3 oscillations x 2 time points; artifact: orders 1-3, own / IRF width, index independent and "
    "dependent (2 indices with shifts); shapes: Gaussian and skewed Gaussian at symbolic axis points, inverted / scaled axes",
    "thorough": "same families with 3 time points / 3 indices",
}
OUTSIDE = ("damped oscillation and PFID convolved with a Gaussian IRF (complex error function is not encoded) and with it "
           "'proportional to the convolution' / 'vanishing before the pulse'; continuity as skewness -> 0 (a limit; only the "
           "dispatch at |b| <= 1e-8 is checked); floating point ranges")
FLOAT_SELFCHECK = True
LN2 = float(np.log(2))


def preload():
    import glotaran.builtin.megacomplexes.coherent_artifact.coherent_artifact_megacomplex  # noqa: F401
    import glotaran.builtin.megacomplexes.damped_oscillation.damped_oscillation_megacomplex  # noqa: F401
    import glotaran.builtin.megacomplexes.pfid.pfid_megacomplex  # noqa: F401
    import glotaran.builtin.megacomplexes.spectral.spectral_megacomplex  # noqa: F401


def configs(tier, seed):
    nt = 2 if tier == "quick" else 3
    out = []
    for n in (1, 2, 3):
        out.append({"name": f"oscillation-noirf-{n}", "kind": "osc", "n": n, "nt": nt})
    for shifted in (False, True):
        out.append({"name": f"oscillation-irf-before-pulse-{'shifted' if shifted else 'noshift'}", "kind": "osc_irf", "shifted": shifted})
    for neg in (False, True):
        for ngauss in (1, 2):
            out.append({"name": f"oscillation-irf-full-{'neg' if neg else 'pos'}rate-{ngauss}gauss", "kind": "osc_irf_full", "neg": neg,
                        "ngauss": ngauss, "shifted": ngauss == 1})
    # two oscillations with rates of different sign, in both declaration orders (columns stay with their labels)
    for signs in (["neg", "pos"], ["pos", "neg"]):
        out.append({"name": f"oscillation-irf-full-mixed-{'-'.join(signs)}", "kind": "osc_irf_full", "signs": signs, "ngauss": 1,
                    "shifted": False, "nt": 1})
    for order in (1, 2, 3):
        for own in (False, True):
            out.append({"name": f"artifact-order{order}-{'own' if own else 'irf'}width", "kind": "artifact", "order": order,
                        "own": own, "indexdep": False, "nt": nt})
    out.append({"name": "artifact-order3-shifted", "kind": "artifact", "order": 3, "own": False, "indexdep": True, "nt": 1,
                "ng": 2 if tier == "quick" else 3})
    for own in (False, True):
        out.append({"name": f"artifact-order2-dispersed-{'own' if own else 'irf'}width", "kind": "artifact", "order": 2, "own": own,
                    "indexdep": True, "disp": True, "nt": 1, "ng": 2})
    for sh in ("gaussian", "gaussian-noamp", "skewed"):
        out.append({"name": f"shape-{sh}", "kind": "shape", "shape": sh})
    for ax in ("inverted", "scaled", "plain"):
        out.append({"name": f"spectral-axis-{ax}", "kind": "axis", "axis": ax})
    from harness import c07_pfid

    out += c07_pfid.configs(tier)
    return out


def _param(label, value):
    from glotaran.parameter import Parameter

    p = Parameter(label=label, value=1.0)
    p.value = value
    return p


MODS = [
    "glotaran.parameter.parameter", "glotaran.parameter.parameters",
    "glotaran.builtin.megacomplexes.decay.irf", "glotaran.builtin.megacomplexes.decay.util",
    "glotaran.builtin.megacomplexes.damped_oscillation.damped_oscillation_megacomplex",
    "glotaran.builtin.megacomplexes.coherent_artifact.coherent_artifact_megacomplex",
    "glotaran.builtin.megacomplexes.spectral.shape", "glotaran.builtin.megacomplexes.spectral.spectral_megacomplex",
]


def erf_shim(x):
    x = np.asarray(x)
    if x.size == 0:
        return np.zeros(x.shape, dtype=object)
    if x.dtype != object:
        from scipy.special import erf as _erf

        return _erf(x)
    out_ = SymArray(x.shape)
    for i_ in np.ndindex(*x.shape):
        v_ = x[i_]
        if not hasattr(v_, "erf"):
            raise core.Unsupported("error function of a non-symbolic object")
        np.ndarray.__setitem__(out_, i_, v_.erf())
    return out_



def erf_shim_for(p):
    return erf_shim


def install(p):
    import glotaran.builtin.megacomplexes.coherent_artifact.coherent_artifact_megacomplex as ca
    import glotaran.builtin.megacomplexes.damped_oscillation.damped_oscillation_megacomplex as do

    install_numeric_shims(p, modules=MODS)
    p.set(do, "erf", erf_shim, "scipy.special.erf -> complex error function as a pair of uninterpreted functions of (re, im)")
    p.set(do, "calculate_damped_oscillation_matrix_no_irf", do.calculate_damped_oscillation_matrix_no_irf.py_func, "numba kernel -> its py_func")
    p.set(ca, "_calculate_coherent_artifact_matrix_on_index", ca._calculate_coherent_artifact_matrix_on_index.py_func, "numba kernel -> its py_func")
    p.set(ca, "_calculate_coherent_artifact_matrix", ca._calculate_coherent_artifact_matrix.py_func, "numba kernel -> its py_func")


def _axis(ctx, name, n):
    a = SymArray((n,))
    for i in range(n):
        a[i] = sym(f"{name}{i}")
        if i:
            ctx.assume(a[i - 1].e < a[i].e)
    return a


def run_config(cfg, rec):
    import glotaran.builtin.megacomplexes.coherent_artifact.coherent_artifact_megacomplex as ca
    import glotaran.builtin.megacomplexes.damped_oscillation.damped_oscillation_megacomplex as do
    import glotaran.builtin.megacomplexes.spectral.shape as shp
    import glotaran.builtin.megacomplexes.spectral.spectral_megacomplex as sm

    rec.encodes(do.DampedOscillationMegacomplex.calculate_matrix, do.calculate_damped_oscillation_matrix_no_irf,
                ca.CoherentArtifactMegacomplex.calculate_matrix, ca.CoherentArtifactMegacomplex.get_irf_parameter,
                ca._calculate_coherent_artifact_matrix_on_index, ca._calculate_coherent_artifact_matrix,
                shp.SpectralShapeGaussian.calculate, shp.SpectralShapeSkewedGaussian.calculate, sm.SpectralMegacomplex.calculate_matrix)
    rec.assume_note("widths > 0; oscillation frequencies below the Nyquist fold-over of the time axis; exp/log/sin/cos uninterpreted "
                    "(exp(0)=1, log(1)=0, exp(-ln2 as float)=1/2 taken as exact)")
    core.Ctx.generic_models = False
    {"osc": _run_osc, "artifact": _run_artifact, "shape": _run_shape, "axis": _run_axis, "osc_irf": _run_osc_irf, "osc_irf_full": _run_osc_irf_full, "pfid": _run_pfid}[cfg["kind"]](cfg, rec)


def _run_pfid(cfg, rec):
    import sys

    from harness import c07_pfid

    c07_pfid.run(cfg, rec, sys.modules[__name__])


def build_osc(n, val, order=None):
    from glotaran.builtin.megacomplexes.damped_oscillation.damped_oscillation_megacomplex import DampedOscillationMegacomplex

    order = order or list(range(n))
    return DampedOscillationMegacomplex(label="osc", labels=[f"o{i}" for i in order],
                                        frequencies=[_param(f"f{i}", val(f"f{i}")) for i in order],
                                        rates=[_param(f"g{i}", val(f"g{i}")) for i in order])


def _run_osc(cfg, rec):
    n, nt = cfg["n"], cfg["nt"]
    W = zreal(0.03) * 2 * zreal(float(np.pi))  # the exact product of the float constants the code multiplies

    def fn(ctx):
        with Patcher() as p, warnings.catch_warnings():
            warnings.simplefilter("ignore")
            install(p)
            if not rec.shims:
                rec.shims += p.record
            t = _axis(ctx, "t", nt)
            vals = {}

            def val(nm):
                vals[nm] = sym(nm)
                return vals[nm]

            mc = build_osc(n, val)
            # below the fold-over frequency of every time step (the code folds higher ones by np.mod)
            for i in range(n):
                ctx.assume(vals[f"f{i}"].e >= 0)
                for a in range(nt - 1):
                    ctx.assume(vals[f"f{i}"].e * W * 2 * zreal(0.03) * (t[a + 1].e - t[a].e) < 1)
            dm = types.SimpleNamespace(label="d1", irf=None)
            labels, matrix = mc.calculate_matrix(dm, np.array([0.0]), t)
        return labels, matrix, t, vals

    for ctx, (kind, out) in core.explore(fn, rec.stats, max_paths=2000):
        rec.witness_path(ctx)
        wit = lambda mm: {"env": model_env(mm)}  # noqa: E731
        if kind == "exc":
            rec.unexpected(ctx, f"{type(out).__name__}: {out}", "basis:osc:exception", wit)
            continue
        labels, matrix, t, vals = out
        items = [("one cosine and one sine column per oscillation", z3.BoolVal(sorted(labels) == sorted([f"o{i}_cos" for i in range(n)] + [f"o{i}_sin" for i in range(n)])),
                  "basis:osc:labels")]
        matrix = np.asarray(matrix, dtype=object)
        for i in range(n):
            w = vals[f"f{i}"].e * W
            g = vals[f"g{i}"].e
            for a in range(nt):
                env_ = ctx.uf("exp", -g * t[a].e)
                re = env_ * ctx.uf("cos", -w * t[a].e)
                im = env_ * ctx.uf("sin", -w * t[a].e)
                if f"o{i}_cos" in labels and f"o{i}_sin" in labels:
                    items.append(("column <osc>_cos = Re exp(-gamma t - i omega t)",
                                  zreal(matrix[a, labels.index(f"o{i}_cos")]) == re, "basis:osc:cos-column"))
                    items.append(("column <osc>_sin = Im exp(-gamma t - i omega t)",
                                  zreal(matrix[a, labels.index(f"o{i}_sin")]) == im, "basis:osc:sin-column"))
        rec.check_all(ctx, items, wit)
        rec.want_sample() and rec.sample({"labels": labels, "entry": str(zreal(matrix[0, 0]))[:120]})
    rec.validate("osc", {}, {"ok": True})


def build_osc_irf(cfg, val):
    from glotaran.builtin.megacomplexes.decay.irf import IrfMultiGaussian

    irf = IrfMultiGaussian(label="irf", center=[_param("mu", val("mu"))], width=[_param("sig", val("sig"))],
                           shift=[_param("sh0", val("sh0")), _param("sh1", val("sh1"))] if cfg["shifted"] else None)
    return build_osc(1, val), types.SimpleNamespace(label="d1", irf=irf)


def _run_osc_irf(cfg, rec):
    """Gaussian-IRF oscillation, only what needs no complex error function: a time point the code places before
    the pulse (outside the 5 sigma window) must (i) give vanishing columns and (ii) really lie more than 5 sigma before
    the *effective* IRF position centre - shift_i that the decay model of the dataset uses."""
    def fn(ctx):
        with Patcher() as p, warnings.catch_warnings():
            warnings.simplefilter("ignore")
            install(p)
            if not rec.shims:
                rec.shims += p.record
            vals = {}

            def val(nm):
                vals[nm] = sym(nm)
                return vals[nm]

            mc, dm = build_osc_irf(cfg, val)
            t = _axis(ctx, "t", 2)
            ctx.assume(vals["sig"].e > 0)
            ctx.assume(vals["g0"].e >= 0)
            ctx.assume(vals["f0"].e >= 0)
            W = zreal(0.03) * 2 * zreal(float(np.pi))
            ctx.assume(vals["f0"].e * W * 2 * zreal(0.03) * (t[1].e - t[0].e) < 1)
            # the first time point lies more than 5 sigma before the effective IRF position of index 0
            # both time points lie more than 5 sigma before the effective IRF position of every index
            for sh in (("sh0", "sh1") if cfg["shifted"] else (None,)):
                c_eff = vals["mu"].e - (vals[sh].e if sh else 0)
                ctx.assume(t[1].e - c_eff <= -5 * vals["sig"].e)
            gaxis = np.array([1.0, 2.0]) if cfg["shifted"] else np.array([1.0])
            try:
                labels, matrix = mc.calculate_matrix(dm, gaxis, t)
            except (TypeError, core.Unsupported) as ex:
                # beyond the cut the complex error function would be needed: this path is outside the encoding
                return ("outside", str(ex)[:80], vals, t)
        return ("ok", labels, matrix, vals, t)

    for ctx, (kind, out) in core.explore(fn, rec.stats, max_paths=200):
        rec.witness_path(ctx)
        wit = lambda mm: {"env": model_env(mm)}  # noqa: E731
        if kind == "exc":
            rec.unexpected(ctx, f"{type(out).__name__}: {out}", "basis:osc-irf:exception", wit)
            continue
        if out[0] == "outside":
            # the code evaluated the convolution at t0 although t0 is > 5 sigma before the effective position
            _, msg, vals, t = out
            inside0 = [c for c in ctx.pc]
            rec.want_sample() and rec.sample({"path": "needs complex erf", "pc": [str(c)[:100] for c in inside0][:4]})
            rec.check(ctx, "a time point more than 5 sigma before the effective IRF position (centre - shift_i) is treated as before the pulse",
                      z3.BoolVal(False), "basis:osc-irf:effective-position", wit)
            continue
        _, labels, matrix, vals, t = out
        matrix = np.asarray(matrix, dtype=object)
        items = []
        for idx in np.ndindex(*matrix.shape):
            v = matrix[idx]
            items.append(("oscillation columns vanish before the pulse", core.cross_eq(zreal(v), z3.RealVal(0)), "basis:osc-irf:not-vanishing"))
        rec.check_all(ctx, items, wit)
        rec.want_sample() and rec.sample({"labels": list(labels), "value_before_pulse": str(zreal(matrix.flat[0]))[:80]})
    rec.validate("osc_irf", {}, {"ok": True})


def build_osc_irf_full(cfg, val):
    from glotaran.builtin.megacomplexes.decay.irf import IrfMultiGaussian

    ng = cfg["ngauss"]
    irf = IrfMultiGaussian(label="irf", center=[_param(f"mu{g}", val(f"mu{g}")) for g in range(ng)],
                           width=[_param(f"sig{g}", val(f"sig{g}")) for g in range(ng)],
                           scale=[_param(f"sc{g}", val(f"sc{g}")) for g in range(ng)] if ng > 1 else None,
                           shift=[_param("sh0", val("sh0")), _param("sh1", val("sh1"))] if cfg["shifted"] else None)
    return build_osc(len(_signs(cfg)), val), types.SimpleNamespace(label="d1", irf=irf)


def _signs(cfg):
    return cfg.get("signs") or (["neg"] if cfg["neg"] else ["pos"])


def _run_osc_irf_full(cfg, rec):
    """Damped oscillation convolved with a (multi-)Gaussian IRF, all regions: columns = Re / Im of
        sum_g s_g exp((-tau_g + k sigma_g^2 / 2) k) (1 + erf((tau_g - k sigma_g^2) / (+-sigma_g sqrt2)))  / sum_g s_g,
    k = gamma + i omega, tau_g = t - (mu_g - shift_i), each Gaussian contributing only inside its 5 sigma window (causal for
    gamma >= 0, anti-causal with the sign of the erf argument flipped for gamma < 0), 0 outside."""
    ng = cfg["ngauss"]
    signs = _signs(cfg)
    nosc, nt = len(signs), cfg.get("nt", 2)
    W = zreal(0.03) * 2 * zreal(float(np.pi))
    S2 = zreal(float(np.sqrt(2)))

    def fn(ctx):
        with Patcher() as p, warnings.catch_warnings():
            warnings.simplefilter("ignore")
            install(p)
            if not rec.shims:
                rec.shims += p.record
            vals = {}

            def val(nm):
                vals[nm] = sym(nm)
                return vals[nm]

            ctx.lazy_axioms = True  # every fork of this code is a linear comparison of inputs
            mc, dm = build_osc_irf_full(cfg, val)
            t = _axis(ctx, "t", max(nt, 2))
            for g in range(ng):
                ctx.assume(vals[f"sig{g}"].e > 0)
                if ng > 1:
                    ctx.assume(vals[f"sc{g}"].e > 0)
            for o_, sg_ in enumerate(signs):
                ctx.assume((vals[f"g{o_}"].e < 0) if sg_ == "neg" else (vals[f"g{o_}"].e >= 0))
                ctx.assume(vals[f"f{o_}"].e >= 0)
                ctx.assume(vals[f"f{o_}"].e * W * 2 * zreal(0.03) * (t[1].e - t[0].e) < 1)  # below the folding frequency of the axis
            gaxis = np.array([1.0, 2.0]) if cfg["shifted"] else np.array([1.0])
            # the window edges themselves (tau = +-5 sigma exactly) are outside the claim (measure zero; '<' vs '<=' there)
            for gi_ in range(len(gaxis)):
                for a_ in range(len(t)):
                    for g_ in range(cfg["ngauss"]):
                        tau_ = t[a_].e - (vals[f"mu{g_}"].e - (vals[f"sh{gi_}"].e if cfg["shifted"] else 0))
                        ctx.assume(z3.And(tau_ != 5 * vals[f"sig{g_}"].e, tau_ != -5 * vals[f"sig{g_}"].e))
            labels, matrix = mc.calculate_matrix(dm, gaxis, t)
        return labels, matrix, vals, t

    def cmul(a, b):
        return (a[0] * b[0] - a[1] * b[1], a[0] * b[1] + a[1] * b[0])

    for ctx, (kind, out) in core.explore(fn, rec.stats, max_paths=600):
        rec.witness_path(ctx)
        wit = lambda mm: {"env": model_env(mm)}  # noqa: E731
        if kind == "exc":
            rec.unexpected(ctx, f"{type(out).__name__}: {out}", "basis:osc-irf-full:exception", wit)
            continue
        labels, matrix, vals, t = out
        matrix = np.asarray(matrix, dtype=object)
        fr = z3.Function("cerf_re", z3.RealSort(), z3.RealSort(), z3.RealSort())
        fi = z3.Function("cerf_im", z3.RealSort(), z3.RealSort(), z3.RealSort())
        want_labels = [f"o{o}_cos" for o in range(nosc)] + [f"o{o}_sin" for o in range(nosc)]
        items = [("labels: all cosine columns, then all sine columns, in declaration order", z3.BoolVal(list(labels) == want_labels),
                  "basis:osc-irf-full:labels")]
        nidx = 2 if cfg["shifted"] else 1
        for o, sg in enumerate(signs if list(labels) == want_labels else []):
            neg = sg == "neg"
            k = (vals[f"g{o}"].e, vals[f"f{o}"].e * W)
            for gi in range(nidx):
                for a in range(len(t)):
                    tot = (z3.RealVal(0), z3.RealVal(0))
                    for g in range(ng):
                        sig = vals[f"sig{g}"].e
                        tau = t[a].e - (vals[f"mu{g}"].e - (vals[f"sh{gi}"].e if cfg["shifted"] else 0))
                        cond = (tau < 5 * sig) if neg else (tau > -5 * sig)
                        inside_w = ctx.implied(cond)
                        if inside_w is False:
                            continue
                        dk = (k[0] * sig * sig, k[1] * sig * sig)
                        e_arg = cmul((-tau + dk[0] / 2, dk[1] / 2), k)
                        mag = ctx.uf("exp", e_arg[0])
                        aa = (mag * ctx.uf("cos", e_arg[1]), mag * ctx.uf("sin", e_arg[1]))
                        den = (-S2 * sig) if neg else (S2 * sig)
                        zr, zi = z3.simplify((tau - dk[0]) / den), z3.simplify((-dk[1]) / den)
                        bb = (1 + fr(zr, zi), fi(zr, zi))
                        term = cmul(aa, bb)
                        sc = vals[f"sc{g}"].e if ng > 1 else z3.RealVal(1)
                        if inside_w is None:
                            term = (z3.If(cond, term[0], 0), z3.If(cond, term[1], 0))
                        tot = (tot[0] + sc * term[0], tot[1] + sc * term[1])
                    norm = z3.Sum([vals[f"sc{g}"].e for g in range(ng)]) if ng > 1 else z3.RealVal(1)
                    ci, si = labels.index(f"o{o}_cos"), labels.index(f"o{o}_sin")
                    got_c = matrix[gi, a, ci] if matrix.ndim == 3 else matrix[a, ci]
                    got_s = matrix[gi, a, si] if matrix.ndim == 3 else matrix[a, si]
                    items.append(("cosine column of an oscillation = Re of its IRF-convolved closed form (0 outside the 5 sigma window), at "
                                  "centre - shift_i", core.cross_eq(zreal(got_c), tot[0] / norm), "basis:osc-irf-full:cos"))
                    items.append(("sine column of an oscillation = Im of its IRF-convolved closed form",
                                  core.cross_eq(zreal(got_s), tot[1] / norm), "basis:osc-irf-full:sin"))
        rec.check_all(ctx, items, wit)
        rec.want_sample() and rec.sample({"pc": [str(c)[:80] for c in ctx.pc][:4], "cos0": str(zreal(matrix.flat[0]))[:160]})
    rec.validate("osc_irf_full", {}, {"ok": True})


def build_artifact(cfg, val):
    from glotaran.builtin.megacomplexes.coherent_artifact.coherent_artifact_megacomplex import CoherentArtifactMegacomplex
    from glotaran.builtin.megacomplexes.decay.irf import IrfMultiGaussian

    ng = cfg.get("ng", 1)
    if cfg.get("disp"):
        from glotaran.builtin.megacomplexes.decay.irf import IrfSpectralMultiGaussian

        irf = IrfSpectralMultiGaussian(label="irf", center=[_param("mu", val("mu"))], width=[_param("sig", val("sig"))],
                                       dispersion_center=_param("lc", val("lc")),
                                       center_dispersion_coefficients=[_param("cd0", val("cd0"))],
                                       width_dispersion_coefficients=[_param("wd0", val("wd0"))])
    else:
        irf = IrfMultiGaussian(label="irf", center=[_param("mu", val("mu"))], width=[_param("sig", val("sig"))],
                               shift=[_param(f"sh{i}", val(f"sh{i}")) for i in range(ng)] if cfg["indexdep"] else None)
    mc = CoherentArtifactMegacomplex(label="ca", order=cfg["order"], width=_param("w", val("w")) if cfg["own"] else None)
    return mc, types.SimpleNamespace(label="d1", irf=irf)


def _run_artifact(cfg, rec):
    nt, ng = cfg["nt"], cfg.get("ng", 1)

    def fn(ctx):
        with Patcher() as p, warnings.catch_warnings():
            warnings.simplefilter("ignore")
            install(p)
            if not rec.shims:
                rec.shims += p.record
            t = _axis(ctx, "t", nt)
            vals = {}

            def val(nm):
                vals[nm] = sym(nm)
                return vals[nm]

            mc, dm = build_artifact(cfg, val)
            ctx.assume(vals["sig"].e > 0)
            if cfg["own"]:
                ctx.assume(vals["w"].e > 0)
            if cfg.get("disp"):
                gaxis = _axis(ctx, "lam", ng)
                for gi in range(ng):  # effective widths are positive (documented domain of the dispersion polynomial)
                    ctx.assume(vals["sig"].e + vals["wd0"].e * (gaxis[gi].e - vals["lc"].e) / 100 > 0)
                vals["__lam"] = gaxis
            else:
                gaxis = np.arange(ng, dtype=float) + 1.0
            labels, matrix = mc.calculate_matrix(dm, gaxis, t)
        return labels, matrix, t, vals

    for ctx, (kind, out) in core.explore(fn, rec.stats, max_paths=100):
        rec.witness_path(ctx)
        wit = lambda mm: {"env": model_env(mm)}  # noqa: E731
        if kind == "exc":
            rec.unexpected(ctx, f"{type(out).__name__}: {out}", "basis:artifact:exception", wit)
            continue
        labels, matrix, t, vals = out
        matrix = np.asarray(matrix, dtype=object)
        items = [("labels coherent_artifact_<k>_<label> for k = 1..order",
                  z3.BoolVal(list(labels) == [f"coherent_artifact_{k}_ca" for k in range(1, cfg["order"] + 1)]), "basis:artifact:labels"),
                 ("index dependent exactly when the IRF has a shift or dispersion", z3.BoolVal((matrix.ndim == 3) == cfg["indexdep"]), "basis:artifact:index-dependence")]
        w = vals["w"].e if cfg["own"] else vals["sig"].e
        for gi in range(ng):
            if cfg.get("disp"):
                d = (vals["__lam"][gi].e - vals["lc"].e) / 100
                c = vals["mu"].e + vals["cd0"].e * d
                if not cfg["own"]:
                    w = vals["sig"].e + vals["wd0"].e * d
            else:
                c = vals["mu"].e - (vals[f"sh{gi}"].e if cfg["indexdep"] else 0)
            for a in range(nt):
                g = ctx.uf("exp", -(t[a].e - c) * (t[a].e - c) / (2 * w * w))
                want = [g, (c - t[a].e) / (w * w) * g, ((t[a].e - c) * (t[a].e - c) - w * w) / (w * w * w * w) * g]
                for k in range(cfg["order"]):
                    got = matrix[gi, a, k] if matrix.ndim == 3 else matrix[a, k]
                    items.append(("artifact column k = k-th time derivative of the IRF Gaussian at that index's effective centre, with the own or that index's IRF width",
                                  core.cross_eq(zreal(got), want[k]), f"basis:artifact:column{k + 1}"))
        rec.check_all(ctx, items, wit)
        rec.want_sample() and rec.sample({"labels": list(labels), "entry": str(zreal(matrix.flat[0]))[:120]})
    rec.validate("artifact", {}, {"ok": True})


def build_shape(kind, val):
    from glotaran.builtin.megacomplexes.spectral.shape import SpectralShapeGaussian
    from glotaran.builtin.megacomplexes.spectral.shape import SpectralShapeSkewedGaussian

    if kind == "skewed":
        return SpectralShapeSkewedGaussian(label="s", amplitude=_param("A", val("A")), location=_param("x0", val("x0")),
                                           width=_param("D", val("D")), skewness=_param("b", val("b")))
    return SpectralShapeGaussian(label="s", amplitude=_param("A", val("A")) if kind == "gaussian" else None,
                                 location=_param("x0", val("x0")), width=_param("D", val("D")))


def _run_shape(cfg, rec):
    kind_ = cfg["shape"]

    def fn(ctx):
        with Patcher() as p, warnings.catch_warnings():
            warnings.simplefilter("ignore")
            install(p)
            if not rec.shims:
                rec.shims += p.record
            vals = {}

            def val(nm):
                vals[nm] = sym(nm)
                return vals[nm]

            shape = build_shape(kind_, val)
            ctx.assume(vals["D"].e > 0)
            x0, D = vals["x0"], vals["D"]
            d = sym("d")
            axis = SymArray((5,))
            pts = [x0, SymReal(x0.e + D.e / 2), SymReal(x0.e - D.e / 2), SymReal(x0.e + d.e), SymReal(x0.e - d.e)]
            for i, v in enumerate(pts):
                axis[i] = v
            return vals, d, shape.calculate(axis)

    for ctx, (kind, out) in core.explore(fn, rec.stats, max_paths=400):
        rec.witness_path(ctx)
        wit = lambda mm: {"env": model_env(mm)}  # noqa: E731
        if kind == "exc":
            rec.unexpected(ctx, f"{type(out).__name__}: {out}", "basis:shape:exception", wit)
            continue
        vals, d, y = out
        y = [zreal(v) for v in np.asarray(y, dtype=object)]
        A = vals["A"].e if "A" in vals else z3.RealVal(1)
        half = [core.uf_decl("exp")(zreal(-LN2)) == z3.Q(1, 2)]
        items = []
        if kind_ != "skewed" or ctx.implied(z3.And(vals["b"].e <= zreal(1e-8), vals["b"].e >= zreal(-1e-8))) is True:
            items += [("amplitude at the location", y[0] == A, "basis:shape:amplitude"),
                      ("half maximum at location +- FWHM/2", z3.And(y[1] == A / 2, y[2] == A / 2), "basis:shape:half-maximum"),
                      ("symmetric about the location", y[3] == y[4], "basis:shape:symmetry")]
            x = vals["x0"].e + d.e
            arg = -zreal(LN2) * (2 * d.e / vals["D"].e) * (2 * d.e / vals["D"].e)
            items.append(("Gaussian formula A exp(-ln2 (2 (x - x0) / FWHM)^2)", y[3] == A * ctx.uf("exp", arg), "basis:shape:gaussian-formula"))
            del x
        else:
            b, D = vals["b"].e, vals["D"].e
            items.append(("skewed Gaussian: amplitude at the location", y[0] == A, "basis:shape:skewed-amplitude"))
            for idx, off in ((3, d.e), (4, -d.e), (1, D / 2), (2, -D / 2)):
                theta = 1 + 2 * b * off / D
                pos = ctx.implied(theta > 0)
                if pos is True:
                    lt = ctx.uf("log", theta)
                    want = A * ctx.uf("exp", -zreal(LN2) * (lt / b) * (lt / b))
                    items.append(("skewed Gaussian formula A exp(-ln2 (ln(theta)/b)^2) for theta > 0", core.cross_eq(y[idx], want),
                                  "basis:shape:skewed-formula"))
                elif pos is False:
                    items.append(("skewed Gaussian is 0 where theta <= 0", y[idx] == 0, "basis:shape:skewed-mask"))
        for n_, g, fp in items:
            rec.check(ctx, n_, g, fp, wit, extra=half)
        rec.want_sample() and rec.sample({"shape": kind_, "pc": [str(c)[:80] for c in ctx.pc][:4], "value_at_location": str(y[0])[:100]})
    rec.validate("shape", {}, {"ok": True})


def _run_axis(cfg, rec):
    from glotaran.builtin.megacomplexes.spectral.shape import SpectralShapeGaussian
    from glotaran.builtin.megacomplexes.spectral.spectral_megacomplex import SpectralMegacomplex

    def fn(ctx):
        with Patcher() as p, warnings.catch_warnings():
            warnings.simplefilter("ignore")
            install(p)
            if not rec.shims:
                rec.shims += p.record
            x = _axis(ctx, "x", 2)
            ctx.assume(x[0].e > 0)
            sc = sym("scale")
            ctx.assume(sc.e > 0)
            vals = {k: sym(k) for k in ("A", "x0", "D")}
            ctx.assume(vals["D"].e > 0)
            shape = SpectralShapeGaussian(label="s", amplitude=_param("A", vals["A"]), location=_param("x0", vals["x0"]),
                                          width=_param("D", vals["D"]))
            mc = SpectralMegacomplex(label="sp", shape={"s1": shape})
            dm = types.SimpleNamespace(label="d1", spectral_axis_inverted=cfg["axis"] == "inverted",
                                       spectral_axis_scale=sc if cfg["axis"] != "plain" else 1)
            x_before = [zreal(v_) for v_ in x]
            labels, matrix = mc.calculate_matrix(dm, np.array([0.0]), x)
            # the caller's axis array is evaluated again (as every objective evaluation does): same array, same matrix
            labels2, matrix2 = mc.calculate_matrix(dm, np.array([0.0]), x)
            same_axis = all(zreal(a_).eq(b_) or core.poly_zero(zreal(a_), b_) for a_, b_ in zip(x, x_before))
            same_matrix = all(core.poly_zero(zreal(a_), zreal(b_)) for a_, b_ in zip(np.asarray(matrix, dtype=object).flat,
                                                                                       np.asarray(matrix2, dtype=object).flat))
        return labels, matrix, x, sc, vals, same_axis, same_matrix

    for ctx, (kind, out) in core.explore(fn, rec.stats, max_paths=50):
        rec.witness_path(ctx)
        wit = lambda mm: {"env": model_env(mm)}  # noqa: E731
        if kind == "exc":
            rec.unexpected(ctx, f"{type(out).__name__}: {out}", "basis:axis:exception", wit)
            continue
        labels, matrix, x, sc, vals, same_axis, same_matrix = out
        items = [("evaluating the shapes leaves the caller's axis array as it was and a second evaluation gives the same matrix",
                  z3.BoolVal(bool(same_axis and same_matrix)), "basis:axis:caller-axis-modified")]
        for a in range(2):
            xe = sc.e / x[a].e if cfg["axis"] == "inverted" else sc.e * x[a].e if cfg["axis"] == "scaled" else x[a].e
            u = 2 * (xe - vals["x0"].e) / vals["D"].e
            want = vals["A"].e * ctx.uf("exp", -zreal(LN2) * u * u)
            items.append(("spectral shape evaluated on the documented (inverted: scale/x, scaled: x*scale) axis",
                          core.cross_eq(zreal(np.asarray(matrix, dtype=object)[a, 0]), want), f"basis:axis:{cfg['axis']}"))
        rec.check_all(ctx, items, wit)
        rec.want_sample() and rec.sample({"axis": cfg["axis"], "entry": str(zreal(np.asarray(matrix, dtype=object)[0, 0]))[:140]})
    rec.validate("axis", {}, {"ok": True})


# ------------------------------------------------------------------------------------------------ float side
def concrete(cfg, env):
    return {"ok": True}


def replay(data):
    from scipy.special import erf  # noqa: F401

    cfg = data["cfg"]
    rng = np.random.default_rng(7)
    with warnings.catch_warnings():
        warnings.simplefilter("ignore")
        for _ in range(10):
            if cfg["kind"] == "osc":
                n = cfg["n"]
                v = {f"f{i}": float(rng.uniform(1, 20)) for i in range(n)}  # below the fold-over of any time step <= 2
                v.update({f"g{i}": float(rng.uniform(0.1, 3)) for i in range(n)})
                t = np.sort(rng.uniform(0, 2, cfg["nt"] + 1))
                mc = build_osc(n, lambda nm: v[nm])
                labels, m = mc.calculate_matrix(types.SimpleNamespace(label="d1", irf=None), np.array([0.0]), t)
                for i in range(n):
                    z = np.exp(-v[f"g{i}"] * t - 1j * v[f"f{i}"] * 0.03 * 2 * np.pi * t)
                    for part, lab in ((z.real, f"o{i}_cos"), (z.imag, f"o{i}_sin")):
                        if lab not in labels or not np.allclose(m[:, labels.index(lab)], part, atol=1e-9):
                            return True, (f"{n} oscillations, frequencies {[v[f'f{j}'] for j in range(n)]}, rates {[v[f'g{j}'] for j in range(n)]}: "
                                          f"column labelled {lab} is {m[:, labels.index(lab)].tolist() if lab in labels else None}, "
                                          f"{'Re' if lab.endswith('cos') else 'Im'} exp(-gamma t - i omega t) is {part.tolist()}")
            elif cfg["kind"] == "osc_irf":
                v = {"mu": 0.3, "sig": 0.1, "sh0": float(rng.uniform(0.4, 0.9)) * (1 if rng.random() < 0.5 else -1), "sh1": 0.2,
                     "f0": float(rng.uniform(1, 20)), "g0": float(rng.uniform(0.1, 3))}
                mc, dm = build_osc_irf(cfg, lambda nm: v[nm])
                c_eff = v["mu"] - (v["sh0"] if cfg["shifted"] else 0)
                t = np.array([min(c_eff, v["mu"] - v["sh1"]) - 6.5 * v["sig"], min(c_eff, v["mu"] - v["sh1"]) - 5.5 * v["sig"]])
                gaxis = np.array([1.0, 2.0]) if cfg["shifted"] else np.array([1.0])
                labels, m = mc.calculate_matrix(dm, gaxis, t)
                row = m.ravel()
                if not np.allclose(row, 0, atol=1e-12):
                    return True, (f"oscillation with Gaussian IRF (centre {v['mu']}, width {v['sig']}, shift {v['sh0'] if cfg['shifted'] else None}): at "
                                  f"t = {t[0]} (5.5 sigma before the effective IRF position {c_eff}) the columns are {row.tolist()}, expected 0")
            elif cfg["kind"] == "pfid":
                import sys

                from harness import c07_pfid

                for env_, wide_ in ((data.get("env") if _ == 0 else None, False), (None, True)):
                    bad, why = c07_pfid.float_case(cfg, rng, sys.modules[__name__], env=env_, wide=wide_)
                    if bad:
                        return True, why
            elif cfg["kind"] == "osc_irf_full":
                from scipy.special import erf as cerf

                ng_ = cfg["ngauss"]
                sg_ = _signs(cfg)
                v = {"sh0": float(rng.uniform(-0.3, 0.3)), "sh1": float(rng.uniform(-0.3, 0.3))}
                for o_, s_ in enumerate(sg_):
                    v[f"f{o_}"] = float(rng.uniform(1, 20))
                    v[f"g{o_}"] = float(rng.uniform(0.1, 3)) * (-1 if s_ == "neg" else 1)
                for g in range(ng_):
                    v.update({f"mu{g}": float(rng.uniform(-0.2, 0.4)), f"sig{g}": float(rng.uniform(0.05, 0.3)), f"sc{g}": float(rng.uniform(0.5, 2))})
                mc, dm = build_osc_irf_full(cfg, lambda nm: v[nm])
                t = np.array([float(rng.uniform(-1.5, 0.2)), float(rng.uniform(0.3, 1.5))])
                gaxis = np.array([1.0, 2.0]) if cfg["shifted"] else np.array([1.0])
                labels, m = mc.calculate_matrix(dm, gaxis, t)
                for o_, s_ in enumerate(sg_):
                    neg_ = s_ == "neg"
                    kk = v[f"g{o_}"] + 1j * v[f"f{o_}"] * 0.03 * 2 * np.pi
                    for gi in range(len(gaxis)):
                        for a in range(2):
                            tot = 0j
                            for g in range(ng_):
                                sig = v[f"sig{g}"]
                                tau = t[a] - (v[f"mu{g}"] - (v[f"sh{gi}"] if cfg["shifted"] else 0.0))
                                if (tau < 5 * sig) if neg_ else (tau > -5 * sig):
                                    term = np.exp((-tau + 0.5 * kk * sig * sig) * kk) * (1 + cerf((tau - kk * sig * sig) / ((-1 if neg_ else 1) * np.sqrt(2) * sig)))
                                    tot += (v[f"sc{g}"] if ng_ > 1 else 1.0) * term
                            tot /= sum(v[f"sc{g}"] for g in range(ng_)) if ng_ > 1 else 1.0
                            row = m[gi, a] if m.ndim == 3 else m[a]
                            got_ = [row[list(labels).index(f"o{o_}_cos")], row[list(labels).index(f"o{o_}_sin")]]
                            if not np.allclose(got_, [tot.real, tot.imag], rtol=1e-7, atol=1e-10):
                                return True, (f"{cfg['name']} parameters {v}: columns of oscillation o{o_} at t={t[a]}, index {gi} are {got_}, "
                                              f"closed form {[tot.real, tot.imag]}")
            elif cfg["kind"] == "artifact":
                ng = cfg.get("ng", 1)
                v = {"mu": float(rng.uniform(-0.3, 0.3)), "sig": float(rng.uniform(0.1, 0.5)), "w": float(rng.uniform(0.1, 0.5))}
                v.update({f"sh{i}": float(rng.uniform(-0.3, 0.3)) for i in range(ng)})
                v.update({"lc": 550.0, "cd0": float(rng.uniform(-0.2, 0.2)), "wd0": float(rng.uniform(0.02, 0.1))})
                t = np.sort(rng.uniform(-1, 1, cfg["nt"] + 1))
                mc, dm = build_artifact(cfg, lambda nm: v[nm])
                gax = np.sort(rng.uniform(560, 700, ng)) if cfg.get("disp") else np.arange(ng, dtype=float) + 1
                labels, m = mc.calculate_matrix(dm, gax, t)
                w = v["w"] if cfg["own"] else v["sig"]
                for gi in range(ng):
                    c = v["mu"] - (v[f"sh{gi}"] if cfg["indexdep"] and not cfg.get("disp") else 0)
                    if cfg.get("disp"):
                        c = v["mu"] + v["cd0"] * (gax[gi] - v["lc"]) / 100
                        if not cfg["own"]:
                            w = v["sig"] + v["wd0"] * (gax[gi] - v["lc"]) / 100
                    g = np.exp(-((t - c) ** 2) / (2 * w * w))
                    want = [g, (c - t) / w**2 * g, ((t - c) ** 2 - w * w) / w**4 * g]
                    for k in range(cfg["order"]):
                        got = m[gi, :, k] if m.ndim == 3 else m[:, k]
                        if not np.allclose(got, want[k], atol=1e-9):
                            return True, f"{cfg['name']}: column {k + 1} at index {gi} is {got.tolist()}, expected {want[k].tolist()} (centre {c}, width {w})"
            elif cfg["kind"] == "shape":
                v = {"A": float(rng.uniform(0.5, 2)), "x0": float(rng.uniform(400, 600)), "D": float(rng.uniform(10, 60)), "b": float(rng.uniform(-0.5, 0.5))}
                if _ % 3 == 0:
                    v["b"] = [0.0, 1e-9, -5e-9][(_ // 3) % 3]  # the |skewness| <= 1e-8 dispatch to the plain Gaussian
                s = build_shape(cfg["shape"], lambda nm: v[nm])
                A = v["A"] if cfg["shape"] != "gaussian-noamp" else 1.0
                y = s.calculate(np.array([v["x0"], v["x0"] + v["D"] / 2, v["x0"] - v["D"] / 2]))
                if abs(y[0] - A) > 1e-9:
                    return True, f"{cfg['shape']} shape {v}: value at the location is {y[0]}, amplitude {A}"
                if (cfg["shape"] != "skewed" or abs(v["b"]) <= 1e-8) and (abs(y[1] - A / 2) > 1e-9 or abs(y[2] - A / 2) > 1e-9):
                    return True, f"{cfg['shape']} shape {v}: values at location +- FWHM/2 are {y[1:].tolist()}, half maximum {A / 2}"
                if cfg["shape"] == "skewed" and abs(v["b"]) > 1e-8:
                    xs = np.array([v["x0"] + 7.0, v["x0"] - 3 * v["D"] / abs(v["b"])])
                    th = 1 + 2 * v["b"] * (xs - v["x0"]) / v["D"]
                    want = np.where(th > 0, A * np.exp(-np.log(2) * (np.log(np.where(th > 0, th, 1)) / v["b"]) ** 2), 0.0)
                    got = s.calculate(xs)
                    if not np.allclose(got, want, atol=1e-9):
                        return True, f"skewed shape {v} at {xs.tolist()}: {got.tolist()} vs documented {want.tolist()}"
            else:
                from glotaran.builtin.megacomplexes.spectral.shape import SpectralShapeGaussian
                from glotaran.builtin.megacomplexes.spectral.spectral_megacomplex import SpectralMegacomplex

                v = {"A": 1.3, "x0": float(rng.uniform(15, 25)), "D": 4.0}
                sc = float(rng.uniform(5000, 12000)) if cfg["axis"] == "inverted" else float(rng.uniform(0.5, 2))
                x = np.array([450.0, 520.0]) if cfg["axis"] == "inverted" else np.array([10.0, 21.0])
                shape = SpectralShapeGaussian(label="s", amplitude=_param("A", v["A"]), location=_param("x0", v["x0"]), width=_param("D", v["D"]))
                mc = SpectralMegacomplex(label="sp", shape={"s1": shape})
                dm = types.SimpleNamespace(label="d1", spectral_axis_inverted=cfg["axis"] == "inverted", spectral_axis_scale=sc if cfg["axis"] != "plain" else 1)
                x_in = x.copy()
                _, m = mc.calculate_matrix(dm, np.array([0.0]), x_in)
                _, m2 = mc.calculate_matrix(dm, np.array([0.0]), x_in)
                if not np.array_equal(x_in, x) or not np.array_equal(m, m2):
                    return True, (f"spectral axis {cfg['axis']} scale {sc}: evaluating the matrix changed the caller's axis array from {x.tolist()} to "
                                  f"{x_in.tolist()} (a second evaluation gives {'the same' if np.array_equal(m, m2) else 'a different'} matrix)")
                xe = sc / x if cfg["axis"] == "inverted" else sc * x if cfg["axis"] == "scaled" else x
                want = v["A"] * np.exp(-np.log(2) * (2 * (xe - v["x0"]) / v["D"]) ** 2)
                if not np.allclose(m[:, 0], want, atol=1e-12):
                    return True, f"spectral axis {cfg['axis']} scale {sc}: {m[:, 0].tolist()} vs {want.tolist()}"
    return False, "float basis functions match their definitions at 10 generic points"
