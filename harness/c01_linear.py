"""C01 - the linear sub-problem is solved optimally (variable projection and NNLS).

The real residual_variable_projection / residual_nnls / EstimationProvider dispatch run on terms.  LAPACK is replaced
by its contract: dgeqrf hands back an opaque handle standing for (Q, R) with A = Q[:, :n] R, R upper triangular with
non-zero diagonal; dormqr multiplies by Q or Q^T *according to the side/trans arguments the real code passes*; dtrtrs
solves R x[:n] = b[:n].  A is built by the harness as Q[:, :n] R with Q a product of Givens rotations whose
parameters are either rational numbers or symbols t (c = (1-t^2)/(1+t^2), s = 2t/(1+t^2): every rotation but the one
by pi), R and the data vector fully symbolic - so cond(A) = cond(R) is unbounded in exact arithmetic.
"""
from __future__ import annotations

import itertools
import random
import types
import warnings

import numpy as np
import z3

from symx import core
from symx.env import Patcher
from symx.env import SymNP
from symx.run import model_env
from symx.values import SymArray
from symx.values import SymReal
from symx.values import sym
from symx.values import zreal

BOUNDS = {
    "quick": "VP: shapes (2,1) (3,1) (3,2) (4,2) (4,3) (5,3): 4 seeded rational Q each plus Q with a symbolic rotation "
    "parameter for (2,1); R, data symbolic; NNLS: shapes up to (4,3); dispatch: both names + unknown name",
    "thorough": "20 rational Q per shape up to (6,4); symbolic-parameter Q for (3,1) and (3,2) (solver, may be inconclusive)",
}
OUTSIDE = ("floating-point conditioning (cond 1e10), LAPACK's and scipy-nnls' own numerics (contract stubs), rotations by "
           "exactly pi in the symbolic-Q family (covered by the rational family)")

FLOAT_SELFCHECK = True


def preload():
    import glotaran.optimization.estimation_provider  # noqa: F401


def configs(tier, seed):
    out = []
    shapes = [(2, 1), (3, 1), (3, 2), (4, 2), (4, 3), (5, 3)] + ([(6, 4), (5, 4)] if tier == "thorough" else [])
    nq = 4 if tier == "quick" else 20
    for (m, n) in shapes:
        for q in range(nq):
            out.append({"name": f"vp-{m}x{n}-rationalQ{q}", "kind": "vp", "m": m, "n": n, "q": "rational", "qseed": seed * 1000 + q})
    for (m, n) in [(2, 1)] + ([(3, 1), (3, 2)] if tier == "thorough" else []):
        out.append({"name": f"vp-{m}x{n}-symbolicQ", "kind": "vp", "m": m, "n": n, "q": "symbolic", "qseed": 0})
    for (m, n) in [(2, 1), (3, 2), (4, 3)]:
        out.append({"name": f"nnls-{m}x{n}", "kind": "nnls", "m": m, "n": n})
    out.append({"name": "dispatch", "kind": "dispatch"})
    # the same obligations entered through the group's estimation provider (what the optimizer calls)
    for (m, n) in [(3, 2)] + ([(4, 3)] if tier == "thorough" else []):
        out.append({"name": f"provider-vp-{m}x{n}", "kind": "vp", "m": m, "n": n, "q": "rational", "qseed": seed * 1000 + 77, "via": "provider"})
        out.append({"name": f"provider-nnls-{m}x{n}", "kind": "nnls", "m": m, "n": n, "via": "provider"})
    # every call site of the estimation providers (per index, linked, full model) must go through the group's function
    for route in ("unlinked", "linked", "full"):
        for rf in ("variable_projection", "non_negative_least_squares"):
            out.append({"name": f"callsite-{route}-{rf}", "kind": "callsite", "route": route, "rf": rf})
    batches = []
    for i in range(0, len(out), 4):
        batches.append({"name": f"batch-{i // 4}", "items": out[i : i + 4]})
    return batches


# ------------------------------------------------------------------------------------------------ orthogonal matrices
def givens_product(m, params):
    """Product of Givens rotations G(i, j, t) over all pairs; params: list of t (z3 terms or rationals)."""
    Q = [[z3.RealVal(1) if i == j else z3.RealVal(0) for j in range(m)] for i in range(m)]
    pairs = list(itertools.combinations(range(m), 2))
    for (i, j), t in zip(pairs, params):
        den = 1 + t * t
        c, s = (1 - t * t) / den, (2 * t) / den
        for r in range(m):
            a, b = Q[r][i], Q[r][j]
            Q[r][i] = z3.simplify(a * c - b * s)
            Q[r][j] = z3.simplify(a * s + b * c)
    return Q


def make_Q(cfg):
    m = cfg["m"]
    npairs = m * (m - 1) // 2
    if cfg["q"] == "symbolic":
        return givens_product(m, [z3.Real(f"tq{k}") for k in range(npairs)])
    rng = random.Random(cfg["qseed"])
    ts = [z3.Q(rng.randint(-7, 7), rng.randint(1, 5)) for _ in range(npairs)]
    return givens_product(m, ts)


class QRHandle:
    def __init__(self, Q, R, A):
        self.Q, self.R, self.A = Q, R, A


class LapackStub:
    """Contract stubs for dgeqrf / dormqr / dtrtrs (scipy.linalg.lapack)."""

    def __init__(self, handle):
        self.h = handle
        self.log = []

    def dgeqrf(self, a, **kw):
        if any(kw.get(k) for k in kw):
            raise core.Unsupported(f"dgeqrf called with {kw}: outside the contract that is encoded (the input matrix is not modified)")
        a = np.asarray(a)
        m, n = len(self.h.Q), len(self.h.R)
        if a.shape != (m, n) or not all(core.poly_zero(zreal(a[i, j]), self.h.A[i][j]) for i in range(m) for j in range(n)):
            raise core.Unsupported("dgeqrf called with a matrix other than the one under analysis")
        self.log.append(("dgeqrf",))
        return self.h, "tau", None, 0

    def dormqr(self, side, trans, a, tau, c, lwork, overwrite_c=0, **kw):
        if a is not self.h or tau != "tau":
            raise core.Unsupported("dormqr called without the factorisation handle")
        c = [zreal(x) for x in np.asarray(c, dtype=object).flat]
        m = len(self.h.Q)
        Q = self.h.Q
        if side != "L":
            raise core.Unsupported(f"dormqr side {side!r} on a vector")
        if trans == "T":
            out = [z3.Sum([Q[r][i] * c[r] for r in range(m)]) for i in range(m)]
        elif trans == "N":
            out = [z3.Sum([Q[i][r] * c[r] for r in range(m)]) for i in range(m)]
        else:
            raise core.Unsupported(f"dormqr trans {trans!r}")
        self.log.append(("dormqr", side, trans))
        res = SymArray((m,))
        for i in range(m):
            res[i] = SymReal(out[i])
        return res, None, 0

    def dtrtrs(self, a, b, lower=0, trans=0, unitdiag=0, **kw):
        if a is not self.h or lower or trans or unitdiag:
            raise core.Unsupported("dtrtrs called with unexpected arguments")
        b = [zreal(x) for x in np.asarray(b, dtype=object).flat]
        R = self.h.R
        n = len(R)
        x = [None] * n
        for i in reversed(range(n)):
            acc = b[i]
            for j in range(i + 1, n):
                acc = acc - R[i][j] * x[j]
            x[i] = acc / R[i][i]
        self.log.append(("dtrtrs",))
        res = SymArray((len(b),))
        for i in range(len(b)):
            res[i] = SymReal(x[i] if i < n else b[i])
        return res, 0


def run_config(batch, rec):
    import glotaran.optimization.estimation_provider as ep
    import glotaran.optimization.nnls as nn
    import glotaran.optimization.variable_projection as vp

    rec.encodes(vp.residual_variable_projection, nn.residual_nnls, ep.EstimationProvider.__init__,
                ep.EstimationProvider.calculate_residual)
    rec.assume_note("full column rank: R upper triangular with non-zero diagonal (denominators assumed non-zero); Q from the "
                    "Givens family; LAPACK / scipy.optimize.nnls replaced by their contracts")
    core.Ctx.generic_models = False
    rec.each(batch["items"], lambda cfg: {"vp": _run_vp, "nnls": _run_nnls, "dispatch": _run_dispatch, "callsite": _run_callsite}[cfg["kind"]](cfg, rec))


def _run_vp(cfg, rec):
    import glotaran.optimization.estimation_provider as ep
    import glotaran.optimization.variable_projection as vp

    m, n = cfg["m"], cfg["n"]

    def fn(ctx):
        Q = make_Q(cfg)
        R = [[z3.Real(f"R_{i}_{j}") if j >= i else z3.RealVal(0) for j in range(n)] for i in range(n)]
        for i in range(n):
            ctx.assume(R[i][i] != 0)
        A = [[z3.simplify(z3.Sum([Q[i][k] * R[k][j] for k in range(n)])) for j in range(n)] for i in range(m)]
        y = [z3.Real(f"y_{i}") for i in range(m)]
        stub = LapackStub(QRHandle(Q, R, A))
        mat = SymArray((m, n))
        dat = SymArray((m,))
        for i in range(m):
            dat[i] = SymReal(y[i])
            for j in range(n):
                mat[i, j] = SymReal(A[i][j])
        with Patcher() as p:
            p.set(vp, "lapack", types.SimpleNamespace(dgeqrf=stub.dgeqrf, dormqr=stub.dormqr, dtrtrs=stub.dtrtrs),
                  "scipy.linalg.lapack dgeqrf/dormqr/dtrtrs -> contract stubs")
            if cfg.get("via") == "provider":
                p.set(ep, "np", SymNP(), "numpy facade (estimation provider)")
            if not rec.shims:
                rec.shims += p.record
            if cfg.get("via") == "provider":
                prov = ep.EstimationProvider(types.SimpleNamespace(residual_function="variable_projection", model=None, parameters=None))
                clp, res = prov.calculate_residual(mat, dat)
            else:
                clp, res = vp.residual_variable_projection(mat, dat)
        return A, y, clp, res, stub.log

    for ctx, (kind, out) in core.explore(fn, rec.stats, max_paths=10):
        rec.witness_path(ctx)
        wit = lambda mm, cfg=cfg: {"env": model_env(mm), "item": cfg}  # noqa: E731
        if kind == "exc":
            rec.unexpected(ctx, f"{cfg['name']}: {type(out).__name__}: {out}", "vp:exception", wit)
            continue
        A, y, clp, res, log = out
        items = [("clp has one entry per matrix column, residual one per data point",
                  z3.BoolVal(len(clp) == n and len(res) == m), "vp:shapes")]
        if len(clp) == n and len(res) == m:
            c = [zreal(x) for x in clp]
            r = [zreal(x) for x in res]
            for i in range(m):
                items.append(("residual = data - matrix x clp (entry by entry)",
                              core.cross_eq(r[i], y[i] - z3.Sum([A[i][j] * c[j] for j in range(n)])), "vp:residual-identity"))
            for j in range(n):
                items.append(("residual is orthogonal to every matrix column (normal equations: clp minimises |data - matrix clp|)",
                              core.cross_eq(z3.Sum([A[i][j] * r[i] for i in range(m)]), z3.RealVal(0)), "vp:not-orthogonal"))
        rec.check_all(ctx, items, wit)
        rec.want_sample() and rec.sample({"config": cfg["name"], "lapack_calls": log, "clp0": str(zreal(clp[0]))[:120]})
    if len(rec.validations) < 4:
        rec.validations.append((cfg["name"], {"__item": cfg}, {"ok": True}))


def _run_nnls(cfg, rec):
    import glotaran.optimization.estimation_provider as ep
    import glotaran.optimization.nnls as nn

    m, n = cfg["m"], cfg["n"]

    def fn(ctx):
        mat = SymArray((m, n))
        dat = SymArray((m,))
        for i in range(m):
            dat[i] = sym(f"y_{i}")
            for j in range(n):
                mat[i, j] = sym(f"A_{i}_{j}")
        xs = SymArray((n,))
        for j in range(n):
            xs[j] = sym(f"x_{j}")
            ctx.assume(xs[j].e >= 0)
        calls = []

        def nnls_stub(a, b, *args, **kw):
            calls.append((np.asarray(a), np.asarray(b)))
            return xs, SymReal(z3.Real("rnorm"))

        with Patcher() as p:
            p.set(nn, "nnls", nnls_stub, "scipy.optimize.nnls -> contract stub (fresh x >= 0 obeying KKT)")
            p.set(nn, "np", SymNP(), "numpy facade")
            if cfg.get("via") == "provider":
                p.set(ep, "np", SymNP(), "numpy facade (estimation provider)")
            if not rec.shims:
                rec.shims += p.record
            if cfg.get("via") == "provider":
                prov = ep.EstimationProvider(types.SimpleNamespace(residual_function="non_negative_least_squares", model=None, parameters=None))
                clp, res = prov.calculate_residual(mat, dat)
            else:
                clp, res = nn.residual_nnls(mat, dat)
        return mat, dat, xs, clp, res, calls

    for ctx, (kind, out) in core.explore(fn, rec.stats, max_paths=10):
        rec.witness_path(ctx)
        wit = lambda mm, cfg=cfg: {"env": model_env(mm), "item": cfg}  # noqa: E731
        if kind == "exc":
            rec.unexpected(ctx, f"{cfg['name']}: {type(out).__name__}: {out}", "nnls:exception", wit)
            continue
        mat, dat, xs, clp, res, calls = out
        ok_call = len(calls) == 1 and calls[0][0].shape == (m, n) and all(
            zreal(calls[0][0][i, j]).eq(zreal(mat[i, j])) for i in range(m) for j in range(n)) and all(
            zreal(calls[0][1][i]).eq(zreal(dat[i])) for i in range(m))
        items = [("the NNLS solver receives exactly the matrix and data", z3.BoolVal(bool(ok_call)), "nnls:arguments"),
                 ("returned clp is the solver's non-negative solution", z3.And([zreal(clp[j]) == zreal(xs[j]) for j in range(n)] +
                                                                             [z3.BoolVal(len(clp) == n)]), "nnls:clp")]
        for i in range(m):
            items.append(("residual = data - matrix x clp (entry by entry)",
                          core.cross_eq(zreal(res[i]), zreal(dat[i]) - z3.Sum([zreal(mat[i, j]) * zreal(xs[j]) for j in range(n)])),
                          "nnls:residual-identity"))
        rec.check_all(ctx, items, wit)
        rec.want_sample() and rec.sample({"config": cfg["name"], "residual0": str(zreal(res[0]))[:120]})
    if len(rec.validations) < 4:
        rec.validations.append((cfg["name"], {"__item": cfg}, {"ok": True}))


def _run_dispatch(cfg, rec):
    import glotaran.optimization.estimation_provider as ep
    from glotaran.optimization.nnls import residual_nnls
    from glotaran.optimization.variable_projection import residual_variable_projection

    def fn(ctx):
        which = ctx.choose(3, "residual_function")
        name = ["variable_projection", "non_negative_least_squares", "median_fit"][which]
        called = []
        with Patcher() as p:
            for nm, real in list(ep.SUPPORTED_RESIUDAL_FUNCTIONS.items()):
                p.setitem(ep.SUPPORTED_RESIUDAL_FUNCTIONS, nm, (lambda real: lambda a, b: called.append(real) or ("clp", "res"))(real),
                          f"recording wrapper around SUPPORTED_RESIUDAL_FUNCTIONS[{nm}]")
            group = types.SimpleNamespace(residual_function=name, model=None, parameters=None)
            try:
                prov = ep.EstimationProvider(group)
                out = prov.calculate_residual("M", "y")
                exc = None
            except Exception as ex:  # noqa: BLE001
                out, exc = None, ex
        return name, called, out, exc

    documented = {"variable_projection": residual_variable_projection, "non_negative_least_squares": residual_nnls}
    ok_table = all(ep.SUPPORTED_RESIUDAL_FUNCTIONS.get(k) is v for k, v in documented.items()) and len(ep.SUPPORTED_RESIUDAL_FUNCTIONS) == 2
    for ctx, (kind, out) in core.explore(fn, rec.stats, max_paths=10):
        rec.witness_path(ctx)
        wit = lambda mm, cfg=cfg: {"env": model_env(mm), "item": cfg}  # noqa: E731
        if kind == "exc":
            rec.unexpected(ctx, f"dispatch: {type(out).__name__}: {out}", "dispatch:exception", wit)
            continue
        name, called, res, exc = out
        if name in documented:
            items = [("the residual function named by the dataset group is the one invoked",
                      z3.BoolVal(ok_table and exc is None and called == [documented[name]] and res == ("clp", "res")), "dispatch:wrong-function")]
        else:
            items = [("an unsupported residual function is rejected before anything is evaluated",
                      z3.BoolVal(isinstance(exc, ep.UnsupportedResidualFunctionError) and not called), "dispatch:unknown-not-rejected")]
        rec.check_all(ctx, items, wit)
        rec.want_sample() and rec.sample({"residual_function": name, "invoked": [f.__name__ for f in called], "raised": type(exc).__name__ if exc else None})


def callsite_cfg(cfg):
    """A small pipeline configuration whose linear problems are solved at the call site named by cfg['route']."""
    A2, A3 = [0.0, 1.0], [0.0, 1.0, 2.0]
    grp = {"default": {"link_clp": cfg["route"] == "linked", "residual_function": cfg["rf"]}}
    if cfg["route"] == "full":
        return dict(name=cfg["name"], mcs={"m1": {"labels": ["s1", "s2"]}}, gmcs={"g1": {"labels": ["a"]}}, groups=grp,
                    datasets=[{"label": "d1", "mc": ["m1"], "gmc": ["g1"], "maxis": A3, "gaxis": [1.0, 2.0]}])
    # d1 carries a weight that varies along the global axis: the problem solved at a global index is that index's weighted one
    return dict(name=cfg["name"], mcs={"m1": {"labels": ["s1", "s2"]}}, groups=grp,
                datasets=[{"label": "d1", "mc": ["m1"], "maxis": A3, "gaxis": [1.0, 2.0], "weight": True},
                          {"label": "d2", "mc": ["m1"], "maxis": A2 + [3.0], "gaxis": [2.0, 3.0]}])


def _run_callsite(cfg, rec):
    """The optimizer's real call sites: every linear problem of the group is handed to the function the group names."""
    from harness import c02_objective as c02
    import glotaran.optimization.estimation_provider as ep

    rec.encodes(ep.EstimationProviderUnlinked.calculate_estimation, ep.EstimationProviderUnlinked.calculate_full_model_estimation,
                ep.EstimationProviderLinked.estimate)
    pcfg = callsite_cfg(cfg)
    direct = []
    table = {"residual_variable_projection": "variable_projection", "residual_nnls": "non_negative_least_squares"}
    with Patcher() as p0:
        # a solver function referenced by name inside the provider module (not through the group's table) is recorded as such
        for nm, key in table.items():
            if hasattr(ep, nm):
                p0.set(ep, nm, (lambda nm, key: lambda a, b: direct.append(nm) or ep.SUPPORTED_RESIUDAL_FUNCTIONS[key](a, b))(nm, key),
                       f"estimation_provider.{nm} (module-level name) -> recording forwarder")
        rec.shims += p0.record

        def after(ctx, scheme, opt, stubs):
            snap = ([dict(c) for c in c02.ordered_calls(stubs)], list(direct))
            del direct[:]
            return snap

        paths = list(c02.symbolic_run(pcfg, rec, after=after))
    for ctx, src, stubs, kind, out in paths:
        rec.witness_path(ctx)
        wit = lambda mm, cfg=cfg: {"env": model_env(mm), "item": cfg}  # noqa: E731
        if kind == "exc":
            rec.unexpected(ctx, f"{cfg['name']}: objective evaluation raised {type(out).__name__}: {out}", "callsite:exception", wit)
            continue
        calls, direct_calls = out[3]
        # ... and the (matrix, data) pair handed over at each global index is that index's documented problem (C02's obligations)
        c02.check_objective(pcfg, rec, ctx, src, calls, out[2], fp_prefix="callsite")
        for i_ in range(len(rec.candidates)):
            c_ = rec.candidates[i_]
            if c_[0].startswith("callsite") and "item" not in c_[2]:
                rec.candidates[i_] = (c_[0], c_[1], dict(c_[2], item=cfg))
        fns = sorted({c["fn"] for c in calls} | {"direct:" + d for d in direct_calls})
        rec.check_all(ctx, [("every linear problem of the group (per index / linked / full model) is solved by the residual function the group names",
                             z3.BoolVal(bool(calls) and fns == [cfg["rf"]]), "callsite:wrong-function")], wit)
        rec.want_sample() and rec.sample({"config": cfg["name"], "linear_problems": len(calls), "functions": fns})


# ------------------------------------------------------------------------------------------------ float side
def concrete(batch, env):
    return {"ok": True}


def replay(data):
    """Real LAPACK / scipy on generic matrices of the configuration's shape: KKT / orthogonality numerically."""
    from glotaran.optimization.nnls import residual_nnls
    from glotaran.optimization.variable_projection import residual_variable_projection

    cfg = data.get("item") or data["cfg"]["items"][0]
    if cfg["kind"] == "dispatch":
        import glotaran.optimization.estimation_provider as ep

        doc = {"variable_projection": residual_variable_projection, "non_negative_least_squares": residual_nnls}
        if any(ep.SUPPORTED_RESIUDAL_FUNCTIONS.get(k) is not v for k, v in doc.items()) or len(ep.SUPPORTED_RESIUDAL_FUNCTIONS) != 2:
            return True, f"residual function table is {ep.SUPPORTED_RESIUDAL_FUNCTIONS}"
        for name, f in doc.items():
            prov = ep.EstimationProvider(types.SimpleNamespace(residual_function=name, model=None, parameters=None))
            A, y = np.array([[1.0], [2.0]]), np.array([1.0, 1.0])
            if not np.allclose(prov.calculate_residual(A.copy(), y.copy())[1], f(A.copy(), y.copy())[1]):
                return True, f"group residual function {name!r} does not invoke {f.__name__}"
        try:
            ep.EstimationProvider(types.SimpleNamespace(residual_function="median_fit", model=None, parameters=None))
            return True, "unknown residual function accepted"
        except ep.UnsupportedResidualFunctionError:
            return False, "dispatch as documented"
    if cfg["kind"] == "callsite":
        return _replay_callsite(cfg)
    rng = np.random.default_rng(1)
    m, n = cfg["m"], cfg["n"]
    fn_ = residual_variable_projection if cfg["kind"] == "vp" else residual_nnls
    scales = [1.0]
    if cfg.get("via") == "provider":
        import glotaran.optimization.estimation_provider as ep

        rf = "variable_projection" if cfg["kind"] == "vp" else "non_negative_least_squares"
        fn_ = ep.EstimationProvider(types.SimpleNamespace(residual_function=rf, model=None, parameters=None)).calculate_residual
        # data of any magnitude (the optimum is homogeneous in the data): the counterexample's own scale first
        env = data.get("env") or {}
        ys = [abs(env[k]) for k in env if k.startswith("y_") and env[k]]
        scales = ([max(ys)] if ys else []) + [1.0, 1e-6, 1e-9, 1e-12, 1e6, 1e12]
    for trial in range(20):
        A = rng.normal(size=(m, n))
        if cfg["kind"] == "nnls" and trial % 3 == 0:
            A[:, 0] = -np.abs(A[:, 0])  # a column that is negative everywhere
        sc = scales[trial % len(scales)]
        y = rng.normal(size=m) * sc
        try:
            Ain = np.asfortranarray(A) if trial % 2 else np.ascontiguousarray(A)
            yin = y.copy()
            clp, res = fn_(Ain, yin)
            if not (np.array_equal(Ain, A) and np.array_equal(yin, y)):
                return True, (f"{cfg['name']}: the {'Fortran' if trial % 2 else 'C'}-ordered input matrix / data were modified by the call "
                              f"(the same matrix is reused for every global index)")
        except Exception as ex:  # noqa: BLE001
            return True, f"{cfg['name']}: raised {type(ex).__name__}: {ex}"
        clp, res = np.asarray(clp), np.asarray(res)
        if clp.shape != (n,) or res.shape != (m,):
            return True, f"{cfg['name']}: shapes clp {clp.shape} residual {res.shape}"
        if not np.allclose(res, y - A @ clp, atol=1e-9 * sc, rtol=1e-9):
            return True, f"{cfg['name']}: residual {res.tolist()} != data - matrix clp {(y - A @ clp).tolist()} for A={A.tolist()} y={y.tolist()}"
        if cfg["kind"] == "vp" and not np.allclose(A.T @ res, 0, atol=1e-9 * np.linalg.norm(A) * np.linalg.norm(y)):
            return True, f"{cfg['name']}: residual not orthogonal to the columns: A^T r = {(A.T @ res).tolist()} for A={A.tolist()} y={y.tolist()}"
        if cfg["kind"] == "nnls":
            g = A.T @ res
            if (clp < -1e-12 * sc).any() or (g > 1e-8 * sc).any() or not np.allclose(clp * g, 0, atol=1e-8 * sc * sc):
                return True, f"{cfg['name']}: KKT conditions violated: clp={clp.tolist()} A^T r={g.tolist()}"
    return False, "float code satisfies the optimality conditions at 20 generic problems"


def _replay_callsite(cfg):
    """Float pipeline with recording wrappers around both residual functions, data with a negative unconstrained amplitude."""
    import warnings as _w

    import glotaran.optimization.estimation_provider as ep
    from glotaran.optimization.optimizer import Optimizer
    from harness import c02_objective as c02
    from harness import pipeline as pl

    pcfg = callsite_cfg(cfg)
    env = c02.salted(3)
    src = pl.Source(env)
    used = []
    with Patcher() as p, _w.catch_warnings():
        _w.simplefilter("ignore")
        for nm, real in list(ep.SUPPORTED_RESIUDAL_FUNCTIONS.items()):
            p.setitem(ep.SUPPORTED_RESIUDAL_FUNCTIONS, nm, (lambda real, nm: lambda a, b: used.append(nm) or real(a, b))(real, nm), "recording wrapper")
        for nm in ("residual_variable_projection", "residual_nnls"):
            if hasattr(ep, nm):
                p.set(ep, nm, (lambda real, nm: lambda a, b: used.append("direct:" + nm) or real(a, b))(getattr(ep, nm), nm), "recording wrapper")
        scheme = pl.build_scheme(pcfg, src)
        Optimizer(scheme, verbose=False).calculate_penalty()
    if not used or set(used) != {cfg["rf"]}:
        return True, (f"{cfg['name']}: the group's residual function is {cfg['rf']!r}, but its linear problems were solved through "
                      f"{sorted(set(used))}")
    v_, d_ = c02.replay({"cfg": pcfg, "env": {}})
    if v_:
        return True, d_
    return False, f"{len(used)} linear problems, all through {cfg['rf']}"
