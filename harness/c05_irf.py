"""C05 - Gaussian IRF convolution closed form, and index plumbing of shifted / dispersed IRFs.

(a) closed form: every entry of the matrix produced by the real ``decay_matrix_implementation_index_independent``
    (kernel's Python source, both numerical branches) equals
        sum_g s_g * 1/2 * exp(k^2 sigma_g^2 / 2 - k (t - mu_g)) * (1 + erf((t - mu_g - k sigma_g^2) / (sigma_g sqrt2)))
    (divided by sum s_g when normalize) for all rates, times, centres, widths, scales.
(b) plumbing (relational): slice i of the index dependent implementation equals the index independent kernel
    evaluated with centre mu - shift_i + sum_p c_p d_i^p and width sigma + sum_p w_p d_i^p.
exp / erf / erfcx are uninterpreted; sqrt(2) is a symbol s with s > 0, s^2 = 2.
"""
from __future__ import annotations

import types
import warnings

import numpy as np
import z3

from symx import core
from symx.env import Patcher
from symx.env import install_numeric_shims
from symx.run import model_env
from symx.values import SymArray
from symx.values import SymReal
from symx.values import sym
from symx.values import zreal

BOUNDS = {
    "quick": "closed form: 1-2 Gaussians (1 centre n widths / n centres n widths / scales / normalize on-off), 1 rate, "
    "1-2 times, both branches; plumbing: 2 global indices, 1 time, 1 rate, shifts, centre dispersion order <= 2, width "
    "dispersion order 1, wavelength and wavenumber variable",
    "thorough": "3 Gaussians, 2 rates x 2 times, dispersion order 3, 3 indices",
}
OUTSIDE = ("that the closed form is the convolution integral (calculus, trusted); floating point accuracy / overflow and the "
           "quality of the thresh < -1 switch-over; the backsweep term beyond its algebraic form")

S2 = z3.Real("sqrt2")

FLOAT_SELFCHECK = True


def preload():
    import glotaran.builtin.megacomplexes.decay.util  # noqa: F401


def configs(tier, seed):
    big = tier == "thorough"
    out = []
    for nc, nw, scales, norm in [(1, 1, False, True), (1, 2, True, True), (2, 2, True, False), (2, 1, False, True), (1, 2, False, True)] + \
            ([(3, 3, True, True), (1, 3, True, False)] if big else []):
        out.append({"name": f"closed-c{nc}-w{nw}-{'s' if scales else 'nos'}-{'norm' if norm else 'raw'}", "kind": "closed",
                    "nc": nc, "nw": nw, "scales": scales, "normalize": norm, "nr": 2 if big else 1,
                    "nt": 2 if big and max(nc, nw) < 3 else 1})
    out.append({"name": "closed-backsweep", "kind": "closed", "nc": 1, "nw": 1, "scales": False, "normalize": False, "nr": 1,
                "nt": 1, "backsweep": True})
    for shift in (False, True):
        for cd, wd in [(0, 0), (1, 0), (1, 1), (0, 1)] + ([(2, 1), (3, 2), (1, 2)] if big else []):
            for wn in (False, True):
                if not shift and cd == 0 and wd == 0:
                    continue
                if cd == 0 and wd == 0 and wn:
                    continue
                out.append({"name": f"plumbing-{'shift' if shift else 'noshift'}-cd{cd}-wd{wd}-{'wn' if wn else 'wl'}",
                            "kind": "plumbing", "shift": shift, "cd": cd, "wd": wd, "wavenumber": wn, "ng": 3 if big else 2,
                            "nc": 2 if (big and cd == 1 and not shift) else 1})
    return out


def _param(label, value):
    from glotaran.parameter import Parameter

    p = Parameter(label=label, value=1.0)
    p.value = value
    return p


def _install(p, ctx):
    import glotaran.builtin.megacomplexes.decay.decay_matrix_gaussian_irf as gk
    import glotaran.builtin.megacomplexes.decay.util as du

    install_numeric_shims(p, modules=[
        "glotaran.parameter.parameter", "glotaran.parameter.parameters", "glotaran.builtin.megacomplexes.decay.util",
        "glotaran.builtin.megacomplexes.decay.irf",
    ])
    s2 = SymReal(S2)
    ctx.assume(z3.And(S2 > 0, S2 * S2 == 2))
    p.set(gk, "SQRT2", s2, "SQRT2 -> symbol s with s > 0, s*s == 2")
    p.set(gk, "erf", lambda x: x.erf() if isinstance(x, SymReal) else _real_erf(x), "scipy erf -> uninterpreted function")
    p.set(gk, "erfcx", lambda x: x.erfcx() if isinstance(x, SymReal) else _real_erfcx(x), "scipy erfcx -> uninterpreted function")
    on_index = gk.calculate_decay_matrix_gaussian_irf_on_index.py_func
    full = gk.calculate_decay_matrix_gaussian_irf.py_func
    p.set(gk, "calculate_decay_matrix_gaussian_irf_on_index", on_index, "numba kernel -> its py_func")
    p.set(gk, "calculate_decay_matrix_gaussian_irf", full, "numba kernel -> its py_func")
    p.set(du, "calculate_decay_matrix_gaussian_irf_on_index", on_index, "numba kernel -> its py_func")
    p.set(du, "calculate_decay_matrix_gaussian_irf", full, "numba kernel -> its py_func")
    return on_index


def _real_erf(x):
    from scipy.special import erf

    return float(erf(x))


def _real_erfcx(x):
    from scipy.special import erfcx

    return float(erfcx(x))


def closed_form(ctx, k, t, mu, sigma):
    """1/2 exp((k^2 sigma^2 - 2 k (t - mu)) / s^2) (1 + erf((t - mu - k sigma^2) / (sigma s))), s = sqrt 2."""
    arg = (k * k * sigma * sigma - 2 * k * (t - mu)) / (S2 * S2)
    th = (t - mu - k * sigma * sigma) / (sigma * S2)
    return z3.Q(1, 2) * ctx.uf("exp", arg) * (1 + ctx.uf("erf", th)), arg, th


def function_axioms(ctx):
    """Instances of erfcx(x) = exp(x^2)(1 - erf(x)), erf(-x) = -erf(x), exp(a)exp(b) = exp(a+b) on occurring terms."""
    E, F, X = core.uf_decl("exp"), core.uf_decl("erf"), core.uf_decl("erfcx")
    out = []
    for x in list(ctx.uf_apps.get("erfcx", [])):
        out.append(X(x) == E(x * x) * (1 - F(x)))
        for a in list(ctx.uf_apps.get("exp", [])):
            out.append(E(x * x) * E(a) == E(x * x + a))
        for y in list(ctx.uf_apps.get("erf", [])):
            out.append(z3.Implies(x == -y, F(x) == -F(y)))
    return out


def run_config(cfg, rec):
    import glotaran.builtin.megacomplexes.decay.decay_matrix_gaussian_irf as gk
    import glotaran.builtin.megacomplexes.decay.irf as irfm
    import glotaran.builtin.megacomplexes.decay.util as du

    rec.encodes(gk.calculate_decay_matrix_gaussian_irf_on_index, gk.calculate_decay_matrix_gaussian_irf,
                du.decay_matrix_implementation_index_dependent, du.decay_matrix_implementation_index_independent,
                du.index_dependent, irfm.IrfMultiGaussian.parameter, irfm.IrfSpectralMultiGaussian.parameter,
                irfm.IrfSpectralMultiGaussian.is_index_dependent)
    rec.assume_note("widths > 0, rates > 0, scales > 0; exp/erf/erfcx uninterpreted with the instantiated identities "
                    "erfcx(x)=exp(x^2)(1-erf(x)), erf odd, exp(a)exp(b)=exp(a+b); sqrt2 symbol with s^2 = 2")
    core.Ctx.generic_models = False
    core.Ctx.reuse_decisions = True  # the relational second evaluation repeats the kernel's branch conditions
    if cfg["kind"] == "closed":
        _run_closed(cfg, rec)
    else:
        _run_plumbing(cfg, rec)


def _run_closed(cfg, rec):
    import glotaran.builtin.megacomplexes.decay.util as du
    from glotaran.builtin.megacomplexes.decay.irf import IrfMultiGaussian

    nc, nw, nr, nt = cfg["nc"], cfg["nw"], cfg["nr"], cfg["nt"]
    ng = max(nc, nw)

    def fn(ctx):
        with Patcher() as p, warnings.catch_warnings():
            warnings.simplefilter("ignore")
            ctx.lazy_axioms = True  # the kernels fork on arguments (beta - alpha < -1) only, never on a function value
            _install(p, ctx)
            if not rec.shims:
                rec.shims += p.record
            mus = [sym(f"mu{i}") for i in range(nc)]
            sigs = [sym(f"sig{i}") for i in range(nw)]
            scs = [sym(f"sc{i}") for i in range(ng)] if cfg["scales"] else None
            ks = [sym(f"k{i}") for i in range(nr)]
            ts = [sym(f"t{i}") for i in range(nt)]
            for v in sigs + ks + (scs or []):
                ctx.assume(v.e > 0)
            kw = {}
            if cfg.get("backsweep"):
                T = sym("T")
                ctx.assume(T.e > 0)
                kw = {"backsweep": True, "backsweep_period": _param("T", T)}
            irf = IrfMultiGaussian(label="irf", center=[_param(f"mu{i}", m) for i, m in enumerate(mus)],
                                   width=[_param(f"sig{i}", s) for i, s in enumerate(sigs)],
                                   scale=[_param(f"sc{i}", s) for i, s in enumerate(scs)] if scs else None,
                                   normalize=cfg["normalize"], **kw)
            dm = types.SimpleNamespace(label="d1", irf=irf)
            rates = SymArray((nr,))
            times = SymArray((nt,))
            for i, k in enumerate(ks):
                rates[i] = k
            for i, t in enumerate(ts):
                times[i] = t
            matrix = du.np.zeros((nt, nr))
            du.decay_matrix_implementation_index_independent(matrix, rates, np.array([0.0]), times, dm)
            return matrix, mus, sigs, scs, ks, ts, kw.get("backsweep_period")

    for ctx, (kind, out) in core.explore(fn, rec.stats, max_paths=5000):
        rec.witness_path(ctx)
        wit = lambda mm: {"env": model_env(mm)}  # noqa: E731
        if kind == "exc":
            rec.unexpected(ctx, f"{type(out).__name__}: {out}", "irf:exception", wit)
            continue
        matrix, mus, sigs, scs, ks, ts, T = out
        items = []
        for ti, t in enumerate(ts):
            for ri, k in enumerate(ks):
                want = 0
                for g in range(ng):
                    mu = mus[g if nc > 1 else 0].e
                    sg = sigs[g if nw > 1 else 0].e
                    term, _, _ = closed_form(ctx, k.e, t.e, mu, sg)
                    if scs:
                        term = scs[g].e * term
                    if T is not None:
                        E = lambda a: ctx.uf("exp", a)  # noqa: E731
                        x1 = E(-k.e * (t.e - mu + T.value.e))
                        x2 = E(-k.e * (T.value.e / 2 - (t.e - mu)))
                        x3 = E(-k.e * T.value.e)
                        valid = ctx.implied((z3.If(k.e >= 0, k.e, -k.e)) * T.value.e > zreal(0.001))
                        if valid is not False:
                            term = term + (x1 + x2) / (1 - x3)
                    want = want + term
                if cfg["normalize"] and scs:
                    want = want / z3.Sum([s.e for s in scs])
                elif cfg["normalize"]:
                    want = want / ng
                items.append(("matrix entry = documented closed form of exp(-kt) convolved with the (multi-)Gaussian IRF",
                              core.cross_eq(zreal(matrix[ti, ri]), want), "irf:closed-form"))
        ax = function_axioms(ctx)
        for n_, g, fp in items:
            rec.check(ctx, n_, g, fp, wit, extra=ax, timeout_ms=20000)
        rec.want_sample() and rec.sample({"pc": [str(c)[:90] for c in ctx.pc][:3], "entry": str(zreal(matrix[0, 0]))[:160]})
    rec.validate("closed", {}, {"ok": True})


def _run_plumbing(cfg, rec):
    import glotaran.builtin.megacomplexes.decay.decay_matrix_gaussian_irf as gk
    import glotaran.builtin.megacomplexes.decay.util as du
    from glotaran.builtin.megacomplexes.decay.irf import IrfMultiGaussian
    from glotaran.builtin.megacomplexes.decay.irf import IrfSpectralMultiGaussian

    ng, nc = cfg["ng"], cfg["nc"]

    def fn(ctx):
        with Patcher() as p, warnings.catch_warnings():
            warnings.simplefilter("ignore")
            ctx.lazy_axioms = True  # see _run_closed
            on_index = _install(p, ctx)
            if not rec.shims:
                rec.shims += p.record
            mus = [sym(f"mu{i}") for i in range(nc)]
            sigs = [sym(f"sig{i}") for i in range(nc)]
            k, t = sym("k"), sym("t")
            lam = [sym(f"lam{i}") for i in range(ng)]
            ctx.assume(k.e > 0)
            for s in sigs:
                ctx.assume(s.e > 0)
            shifts = [sym(f"sh{i}") for i in range(ng)] if cfg["shift"] else None
            kw = dict(label="irf", center=[_param(f"mu{i}", m) for i, m in enumerate(mus)],
                      width=[_param(f"sig{i}", s) for i, s in enumerate(sigs)],
                      shift=[_param(f"sh{i}", s) for i, s in enumerate(shifts)] if shifts else None, normalize=False)
            cds = [sym(f"cd{i}") for i in range(cfg["cd"])]
            wds = [sym(f"wd{i}") for i in range(cfg["wd"])]
            lc = sym("lc")
            if cfg["cd"] or cfg["wd"]:
                irf = IrfSpectralMultiGaussian(dispersion_center=_param("lc", lc),
                                               center_dispersion_coefficients=[_param(f"cd{i}", c) for i, c in enumerate(cds)],
                                               width_dispersion_coefficients=[_param(f"wd{i}", c) for i, c in enumerate(wds)],
                                               model_dispersion_with_wavenumber=cfg["wavenumber"], **kw)
            else:
                irf = IrfMultiGaussian(**kw)
            dm = types.SimpleNamespace(label="d1", irf=irf)
            gaxis = SymArray((ng,))
            for i in range(ng):
                gaxis[i] = lam[i]
            rates = SymArray((1,))
            rates[0] = k
            times = SymArray((1,))
            times[0] = t
            dep = du.index_dependent(dm)
            matrix = du.np.zeros((ng, 1, 1))
            du.decay_matrix_implementation_index_dependent(matrix, rates, gaxis, times, dm)
            # specification side: effective centre / width per index from the inputs, fed to the index independent kernel
            ref = []
            for i in range(ng):
                if cfg["wavenumber"]:
                    d = 1000 / lam[i].e - 1000 / lc.e
                else:
                    d = (lam[i].e - lc.e) / 100
                cen, wid = SymArray((nc,)), SymArray((nc,))
                for g in range(nc):
                    c = mus[g].e - (shifts[i].e if shifts else 0)
                    w = sigs[g].e
                    def dpow(n_):
                        r_ = d
                        for _ in range(n_ - 1):
                            r_ = r_ * d
                        return r_

                    for pw, cc in enumerate(cds):
                        c = c + cc.e * dpow(pw + 1)
                    for pw, ww in enumerate(wds):
                        w = w + ww.e * dpow(pw + 1)
                    cen[g] = SymReal(c)
                    wid[g] = SymReal(w)
                    ctx.assume(w > 0)
                m_i = du.np.zeros((1, 1))
                on_index(m_i, rates, times, cen, wid, np.ones(nc), False, 0)
                ref.append(m_i)
            return dep, matrix, ref

    for ctx, (kind, out) in core.explore(fn, rec.stats, max_paths=5000):
        rec.witness_path(ctx)
        wit = lambda mm: {"env": model_env(mm)}  # noqa: E731
        if kind == "exc":
            rec.unexpected(ctx, f"{type(out).__name__}: {out}", "irf:exception", wit)
            continue
        dep, matrix, ref = out
        items = [("an IRF with shift or dispersion is treated as index dependent", z3.BoolVal(bool(dep)), "irf:not-index-dependent")]
        for i in range(ng):
            items.append(("matrix at global index i = index independent matrix with that index's effective centre and width",
                          core.cross_eq(zreal(matrix[i, 0, 0]), zreal(ref[i][0, 0])), "irf:index-plumbing"))
        rec.check_all(ctx, items, wit)
        rec.want_sample() and rec.sample({"pc": [str(c)[:90] for c in ctx.pc][:3], "entry": str(zreal(matrix[0, 0, 0]))[:200]})
    rec.validate("plumbing", {}, {"ok": True})


# ------------------------------------------------------------------------------------------------ float side
def concrete(cfg, env):
    return {"ok": True}


def _stable_closed(k, t, mu, sg):
    """Float reference for the closed form, evaluated in whichever of the two equivalent forms is stable."""
    from scipy.special import erf
    from scipy.special import erfcx

    th = (t - mu - k * sg * sg) / (sg * np.sqrt(2))
    if th < 0:
        return 0.5 * np.exp(-((t - mu) ** 2) / (2 * sg * sg)) * erfcx(-th)
    return 0.5 * np.exp(k * k * sg * sg / 2 - k * (t - mu)) * (1 + erf(th))


def _float_closed(cfg, rng):
    import glotaran.builtin.megacomplexes.decay.util as du
    from glotaran.builtin.megacomplexes.decay.irf import IrfMultiGaussian

    nc, nw, nr, nt = cfg["nc"], cfg["nw"], cfg["nr"], cfg["nt"]
    ng = max(nc, nw)
    mus = rng.uniform(-0.5, 0.5, nc)
    sigs = rng.uniform(0.05, 0.6, nw)
    scs = rng.uniform(0.5, 2.0, ng) if cfg["scales"] else None
    # every other draw uses large rate x width products (up to ~30), where the two numerical branches differ most
    ks = rng.uniform(0.2, 5.0, nr) if rng.random() < 0.5 else rng.uniform(10.0, 60.0, nr)
    ts = rng.uniform(-2.0, 4.0, nt)
    irf = IrfMultiGaussian(label="irf", center=[_param(f"mu{i}", float(m)) for i, m in enumerate(mus)],
                           width=[_param(f"sig{i}", float(s)) for i, s in enumerate(sigs)],
                           scale=[_param(f"sc{i}", float(s)) for i, s in enumerate(scs)] if scs is not None else None,
                           normalize=cfg["normalize"])
    dm = types.SimpleNamespace(label="d1", irf=irf)
    matrix = np.zeros((nt, nr))
    du.decay_matrix_implementation_index_independent(matrix, ks, np.array([0.0]), ts, dm)
    for ti, t in enumerate(ts):
        for ri, k in enumerate(ks):
            want = 0.0
            for g in range(ng):
                mu, sg = mus[g if nc > 1 else 0], sigs[g if nw > 1 else 0]
                term = _stable_closed(k, t, mu, sg)
                want += (scs[g] if scs is not None else 1.0) * term
            if cfg["normalize"]:
                want /= (scs.sum() if scs is not None else ng)
            if abs(matrix[ti, ri] - want) > 1e-6 * max(abs(want), 1e-12) and abs(want) > 1e-250:
                return True, (f"{cfg['name']}: k={k}, t={t}, centres={mus.tolist()}, widths={sigs.tolist()}, scales="
                              f"{None if scs is None else scs.tolist()}: matrix entry {matrix[ti, ri]}, closed form {want}")
    return False, "ok"


def _float_plumbing(cfg, rng, env=None, family="generic"):
    import glotaran.builtin.megacomplexes.decay.decay_matrix_gaussian_irf as gk
    import glotaran.builtin.megacomplexes.decay.util as du
    from glotaran.builtin.megacomplexes.decay.irf import IrfMultiGaussian
    from glotaran.builtin.megacomplexes.decay.irf import IrfSpectralMultiGaussian

    ng, nc = cfg["ng"], cfg["nc"]
    tol = 1e-9
    if family == "narrow-far":
        # a narrow pulse far from time zero: per-index differences are small against the centre, large against the width
        c0 = float(rng.choice([100.0, -40.0, 1000.0]))
        sigs = rng.uniform(1e-3, 5e-3, nc)
        mus = c0 + rng.uniform(-2, 2, nc) * sigs[0]
        k, t = float(rng.uniform(0.3, 3) / sigs[0]), float(c0 + rng.uniform(-2, 8) * sigs[0])
        lam = np.sort(rng.uniform(400, 700, ng))
        shifts = rng.uniform(-1.5, 1.5, ng) * sigs[0] if cfg["shift"] else None
        cds = rng.uniform(-1, 1, cfg["cd"]) * sigs[0]
        wds = rng.uniform(0.0, 0.3, cfg["wd"]) * sigs[0]
        lc = 550.0
        tol = 1e-6
    else:
        mus = rng.uniform(-0.3, 0.3, nc)
        sigs = rng.uniform(0.1, 0.5, nc)
        k, t = float(rng.uniform(0.3, 3)), float(rng.uniform(-0.5, 2))
        lam = np.sort(rng.uniform(400, 700, ng))
        shifts = rng.uniform(-0.2, 0.2, ng) if cfg["shift"] else None
        cds = rng.uniform(-0.05, 0.05, cfg["cd"])
        wds = rng.uniform(0.0, 0.02, cfg["wd"])
        lc = 550.0
    if family == "integer-axis":
        # "arbitrary global axes": an integer-typed axis (pixel numbers, rounded wavelengths) with non-multiples of 100 around lc
        lam = np.sort(rng.choice(np.arange(401, 700), size=ng, replace=False)).astype(int)
    if env:
        # the solver's counterexample point itself (branch region of the path that failed)
        def g(nm, dflt):
            v = env.get(nm)
            return float(v) if v is not None and np.isfinite(v) and abs(v) < 1e6 else float(dflt)

        mus = np.array([g(f"mu{i}", mus[i]) for i in range(nc)])
        sigs = np.array([g(f"sig{i}", sigs[i]) for i in range(nc)])
        k, t, lc = g("k", k), g("t", t), g("lc", lc)
        lam = np.array([g(f"lam{i}", lam[i]) for i in range(ng)])
        if shifts is not None:
            shifts = np.array([g(f"sh{i}", shifts[i]) for i in range(ng)])
        cds = np.array([g(f"cd{i}", cds[i]) for i in range(cfg["cd"])])
        wds = np.array([g(f"wd{i}", wds[i]) for i in range(cfg["wd"])])
    kw = dict(label="irf", center=[_param(f"mu{i}", float(m)) for i, m in enumerate(mus)],
              width=[_param(f"sig{i}", float(s)) for i, s in enumerate(sigs)],
              shift=[_param(f"sh{i}", float(s)) for i, s in enumerate(shifts)] if shifts is not None else None, normalize=False)
    if cfg["cd"] or cfg["wd"]:
        irf = IrfSpectralMultiGaussian(dispersion_center=_param("lc", lc),
                                       center_dispersion_coefficients=[_param(f"cd{i}", float(c)) for i, c in enumerate(cds)],
                                       width_dispersion_coefficients=[_param(f"wd{i}", float(c)) for i, c in enumerate(wds)],
                                       model_dispersion_with_wavenumber=cfg["wavenumber"], **kw)
    else:
        irf = IrfMultiGaussian(**kw)
    dm = types.SimpleNamespace(label="d1", irf=irf)
    matrix = np.zeros((ng, 1, 1))
    du.decay_matrix_implementation_index_dependent(matrix, np.array([k]), lam, np.array([t]), dm)
    for i in range(ng):
        d = (1e3 / lam[i] - 1e3 / lc) if cfg["wavenumber"] else (lam[i] - lc) / 100
        cen = np.array([mus[g] - (shifts[i] if shifts is not None else 0) + sum(c * d ** (p + 1) for p, c in enumerate(cds)) for g in range(nc)])
        wid = np.array([sigs[g] + sum(c * d ** (p + 1) for p, c in enumerate(wds)) for g in range(nc)])
        m_i = np.zeros((1, 1))
        gk.calculate_decay_matrix_gaussian_irf_on_index(m_i, np.array([k]), np.array([t]), cen, wid, np.ones(nc), False, 0.0)
        if abs(matrix[i, 0, 0] - m_i[0, 0]) > tol * max(abs(m_i[0, 0]), 1e-9):
            return True, (f"{cfg['name']}: rate {k}, time {t}, global index {i} (axis value {lam[i]}): matrix entry {matrix[i, 0, 0]}, index independent "
                          f"matrix with effective centre {cen.tolist()} / width {wid.tolist()} gives {m_i[0, 0]}")
    return False, "ok"


def replay(data):
    cfg = data["cfg"]
    rng = np.random.default_rng(12345)
    env = data.get("env") or None
    for trial in range(25 + (1 if env and cfg["kind"] != "closed" else 0)):
        try:
            with warnings.catch_warnings():
                warnings.simplefilter("ignore")
                if cfg["kind"] == "closed":
                    v, d = _float_closed(cfg, rng)
                elif env and trial == 0:
                    v, d = _float_plumbing(cfg, rng, env=env)
                else:
                    v, d = _float_plumbing(cfg, rng, family=("narrow-far", "generic", "integer-axis")[trial % 3])
        except Exception as ex:  # noqa: BLE001
            return True, f"{cfg['name']}: {type(ex).__name__}: {ex}"
        if v:
            return v, d
    return False, "float kernels agree with the closed form / effective-parameter evaluation at 25 generic points"
