"""C13 - fit statistics are consistent with each other and with the reported data."""
from __future__ import annotations

import warnings

import numpy as np
import z3

from harness import c02_objective as c02
from harness import optim
from symx import core
from symx.env import Patcher
from symx.run import model_env
from symx.values import SymReal
from symx.values import zreal

BOUNDS = {
    "quick": "C02 scheme configurations with positive degrees of freedom (<= 3 datasets, <= 3x3 points), adversarial "
    "optimiser with 2 evaluations, Jacobian entries and SVD factors free symbols (<= 3 free parameters)",
    "thorough": "as quick plus seeded random schemes, 3 evaluations",
}
OUTSIDE = "positive semi-definiteness / SVD accuracy in floating point; more than 3 free parameters in the covariance identities"

FLOAT_SELFCHECK = True


def preload():
    c02.preload()
    import glotaran.project.result  # noqa: F401


def _dof(cfg):
    from harness import pipeline as pl

    problems, pen_specs, _ = pl.spec_problems(cfg, pl.Source({}))
    n_data = sum(len(pb["rows"]) for pb in problems)
    n_clp = sum(len(pb["labels"]) for pb in problems)
    n_free = len(optim.free_parameter_spec(cfg))
    return n_data, n_clp, n_free


def configs(tier, seed):
    from harness import pipeline as pl

    out = []
    for c in c02.configs(tier, seed, n_random=8 if tier == "quick" else 40):
        c = dict(c)
        if pl.has_label_collision(c):
            continue
        n_data, n_clp, n_free = _dof(c)
        if n_free == 0:
            c["extra_params"] = ["free1"]
            n_free = 1
        if n_data - n_clp - n_free <= 0:
            continue
        if n_free > 3:
            continue
        c["K"] = 2 if tier == "quick" else 3
        c["symbolic_pick"] = tier == "thorough"
        out.append(c)
    # non-negative / fixed / bounded parameters: standard errors mapped back from log space
    nn = [c for c in c02.base_configs() if c["name"] == "single-relation-penalty"][0]
    nn = dict(nn, name="nonneg-and-fixed-parameters", K=2,
              param_options={"sc1": {"non-negative": True}, "rel1": {"vary": False}, "pen1": {"vary": False}})
    out.append(nn)
    return out


def symbolic_optimize(cfg, rec, K=2, after=None, raise_exception=False, verbose=False, max_paths=400, well_conditioned=False, pick=None):
    """Real Optimizer.optimize + create_result on terms, with adversarial optimiser and SVD contract stubs."""
    from harness import pipeline as pl
    from glotaran.optimization.optimizer import Optimizer

    with Patcher() as p:
        src = pl.Source(None)
        stubs = pl.install(p, src)
        rec.shims += p.record
        state = {}

        def fn(ctx):
            for s in stubs.values():
                s.calls.clear()
                s.cache.clear()
            ls = optim.AdversarialLeastSquares(ctx, K=K, pick=pick)
            svd = optim.SvdStub(ctx, well_conditioned=well_conditioned)
            with Patcher() as p2:
                optim.install_optimizer_stubs(p2, ctx, src, ls, svd)
                if not state.get("rec"):
                    rec.shims += p2.record
                    state["rec"] = True
                with warnings.catch_warnings():
                    warnings.simplefilter("ignore")
                    scheme = pl.build_scheme(cfg, src)
                    assume_parameter_domains(ctx, cfg, scheme)
                    opt = Optimizer(scheme, verbose=verbose, raise_exception=raise_exception)
                    ctx.log = {"scheme": scheme, "opt": opt, "ls": ls, "svd": svd}
                    opt.optimize()
                    ctx.log["calls_after_optimize"] = len(c02.ordered_calls(stubs))
                    result = opt.create_result()
                    extra = after(ctx, scheme, opt, result) if after else None
            return scheme, opt, ls, svd, result, extra

        for ctx, (kind, out) in core.explore(fn, rec.stats, max_paths=max_paths):
            yield ctx, src, stubs, kind, out


def assume_parameter_domains(ctx, cfg, scheme):
    for p in scheme.parameters.all():
        if not isinstance(p.value, SymReal):
            continue
        if p.non_negative:
            ctx.assume(p.value.e > 0)
        for b, ge in ((p.minimum, True), (p.maximum, False)):
            if isinstance(b, SymReal):
                ctx.assume((p.value >= b) if ge else (p.value <= b))
                if p.non_negative:
                    ctx.assume(b.e > 0)
            elif abs(float(b)) != optim.INF:
                ctx.assume((p.value.e >= zreal(float(b))) if ge else (p.value.e <= zreal(float(b))))


def run_config(cfg, rec):
    import glotaran.optimization.optimization_group as og
    import glotaran.optimization.optimizer as om
    from harness import pipeline as pl

    rec.encodes(om.Optimizer.optimize, om.Optimizer.create_result, om.Optimizer.calculate_covariance_matrix_and_standard_errors,
                om.Optimizer.objective_function, om.Optimizer.calculate_penalty, og.OptimizationGroup.create_result_data)
    rec.assume_note("least_squares replaced by an adversarial stub (arbitrary evaluation points in bounds, arbitrary Jacobian); "
                    "np.linalg.svd by its contract (sigma descending >= 0, V^T V = I, J^T J = V sigma^2 V^T)")
    n_data, n_clp, n_free = _dof(cfg)
    free_labels = optim.free_parameter_spec(cfg)
    # the returned point is a solver variable where it matters most (penalties, linked groups, several groups); elsewhere the
    # last evaluated point is returned (keeps the quick tier short; the thorough tier makes it symbolic everywhere)
    sym_pick = bool(cfg.get("penalties")) or len(cfg["datasets"]) > 1 or cfg.get("symbolic_pick")
    for ctx, src, stubs, kind, out in symbolic_optimize(cfg, rec, K=cfg.get("K", 2), pick="symbolic" if sym_pick else None):
        rec.witness_path(ctx)
        wit = lambda mm: {"env": model_env(mm)}  # noqa: E731
        if kind == "exc":
            rec.unexpected(ctx, f"optimize/create_result raised {type(out).__name__}: {out}", "statistics:exception", wit)
            continue
        scheme, opt, ls, svd, res, _ = out
        x, fun = ls.evals[ls.returned]
        f = [zreal(v) for v in np.asarray(fun, dtype=object).flat]
        pens = [zreal(v) for g in (res.additional_penalty or []) for v in np.asarray(g, dtype=object).flat]
        chi = zreal(res.chi_square)
        items = [
            ("success reported", z3.BoolVal(res.success is True), "statistics:success"),
            ("number_of_residuals = every data point once + one entry per penalty",
             z3.BoolVal(res.number_of_residuals == n_data + len(pens) == len(f)), "statistics:number-of-residuals"),
            ("number_of_free_parameters / free_parameter_labels = vary and expression-free parameters in order",
             z3.BoolVal(res.number_of_free_parameters == n_free and list(res.free_parameter_labels) == free_labels),
             "statistics:free-parameters"),
            ("number_of_clps = linear coefficients remaining after constraints and relations at each index",
             z3.BoolVal(res.number_of_clps == n_clp), "statistics:number-of-clps"),
            ("degrees_of_freedom = residuals - free parameters - clps",
             z3.BoolVal(res.degrees_of_freedom == n_data + len(pens) - n_free - n_clp), "statistics:dof"),
            ("chi_square = sum of squared entries of the optimiser's final residual vector",
             chi == z3.Sum([v * v for v in f]), "statistics:chi-square-fun"),
        ]
        dof = n_data + len(pens) - n_free - n_clp
        # chi_square from the reported datasets + penalties
        acc = z3.Sum([v * v for v in pens]) if pens else z3.RealVal(0)
        size_total = 0
        for ds in cfg["datasets"]:
            r = res.data[ds["label"]]
            var = "weighted_residual" if "weighted_residual" in r else "residual"
            vals = [zreal(v) for v in np.asarray(r[var].data, dtype=object).flat]
            size_total += len(vals)
            acc = acc + z3.Sum([v * v for v in vals])
            size = len(vals)
            plain = [zreal(v) for v in np.asarray(r["residual"].data, dtype=object).flat]
            rm = zreal(np.asarray(r.attrs["root_mean_square_error"], dtype=object).item())
            wrm = zreal(np.asarray(r.attrs["weighted_root_mean_square_error"], dtype=object).item())
            items.append(("dataset root_mean_square_error = sqrt(sum residual^2 / size)",
                          rm == core.uf_decl("sqrt")(z3.Sum([v * v for v in plain]) / size), "statistics:dataset-rmse"))
            items.append(("dataset weighted_root_mean_square_error = sqrt(sum weighted_residual^2 / size)",
                          wrm == core.uf_decl("sqrt")(z3.Sum([v * v for v in vals]) / size),
                          "statistics:dataset-weighted-rmse"))
        items.append(("chi_square = sum of squared weighted residuals of all result datasets + squared penalties",
                      core.cross_eq(chi, acc), "statistics:chi-square-datasets"))
        items.append(("every data point appears once in the result residuals", z3.BoolVal(size_total == n_data),
                      "statistics:residual-count"))
        items.append(("cost = chi_square / 2 (objective re-evaluated at the optimised parameters)",
                      core.cross_eq(zreal(res.cost), chi / 2), "statistics:cost"))
        red = zreal(res.reduced_chi_square)
        rmse = zreal(res.root_mean_square_error)
        items.append(("reduced_chi_square = chi_square / degrees_of_freedom", core.cross_eq(red, chi / dof), "statistics:reduced-chi"))
        items.append(("root_mean_square_error = sqrt(reduced_chi_square)", rmse == core.uf_decl("sqrt")(chi / dof),
                      "statistics:rmse"))
        # optimized parameters are the optimiser's x, label by label
        for k, lab in enumerate(free_labels):
            p = res.optimized_parameters.get(lab)
            want = ctx.uf("exp", zreal(x[k])) if p.non_negative else zreal(x[k])
            items.append(("optimized parameter k = optimiser's x[k] (exp for non-negative) for free label k",
                          zreal(p.value) == want, "statistics:x-to-label"))
        # covariance and standard errors
        a, sv, vt = svd.calls[-1]
        jac_ok = a.shape == (len(f), n_free) and all(zreal(a[i, j]).eq(z3.Real(f"J_{i}_{j}")) for i in range(a.shape[0]) for j in range(n_free))
        items.append(("covariance is computed from the optimiser's Jacobian", z3.BoolVal(bool(jac_ok)), "statistics:jacobian"))
        cov = np.asarray(res.covariance_matrix, dtype=object)
        eps = float(np.finfo(float).eps)
        kk = len(sv)

        def cov_spec(p_, q_):
            return z3.Sum([z3.If(zreal(sv[i]) * zreal(sv[i]) > zreal(eps),
                                 zreal(vt[i, p_]) * zreal(vt[i, q_]) / (zreal(sv[i]) * zreal(sv[i])), z3.RealVal(0))
                           for i in range(kk)])

        shape_ok = cov.shape == (n_free, n_free)
        items.append(("covariance matrix is n_free x n_free", z3.BoolVal(shape_ok), "statistics:covariance-shape"))
        if shape_ok:
            for p_ in range(n_free):
                for q_ in range(n_free):
                    items.append(("covariance = V diag(1/sigma^2 over sigma^2 > eps) V^T, symmetric",
                                  z3.And(core.cross_eq(zreal(cov[p_, q_]), cov_spec(p_, q_)),
                                         core.cross_eq(zreal(cov[p_, q_]), zreal(cov[q_, p_]))), "statistics:covariance"))
            for k, lab in enumerate(free_labels):
                p = res.optimized_parameters.get(lab)
                se = zreal(p.standard_error)
                err = rmse * ctx.uf("sqrt", zreal(cov[k, k]))
                if p.non_negative:
                    val = zreal(p.value)
                    one = ctx.implied(val == 1)
                    shifted = val + zreal(1e-10)
                    logv = ctx.uf("log", shifted if one is True else val if one is False else z3.If(val == 1, shifted, val))
                    absl = z3.If(logv >= 0, logv, -logv)
                    want = z3.If(err < absl, val * (ctx.uf("exp", err) - 1), z3.If(val >= 0, val, -val))
                else:
                    want = err
                items.append(("standard error of free label k = rmse x sqrt(cov[k,k]) (mapped back from log space if non-negative)",
                              se == want, "statistics:standard-error"))
            for lab in [p.label for p in res.optimized_parameters.all() if p.label not in free_labels]:
                se = res.optimized_parameters.get(lab).standard_error
                items.append(("fixed / expression parameters get no standard error", z3.BoolVal(isinstance(se, float) and se != se),
                              "statistics:standard-error-fixed"))
        rec.check_all(ctx, items, wit)
        rec.want_sample() and rec.sample({"path_condition": [str(c) for c in ctx.pc][:4], "dof": dof, "free": free_labels, "n_clp": n_clp,
                    "chi_square": str(chi)[:120]})
        env = c02.DefaultEnv()
        rec.validate("counts", dict(env), {"n_res": n_data + len(pens), "n_clp": n_clp, "dof": dof})


# ------------------------------------------------------------------------------------------------ float side
def float_optimize(cfg, env, points=None, K=2, pick=None, jac_scale=1.0):
    from harness import pipeline as pl
    from glotaran.optimization.optimizer import Optimizer

    with Patcher() as p:
        src = pl.Source(env, getattr(env, "salt", ""))
        pl.install(p, src)
        with warnings.catch_warnings():
            warnings.simplefilter("ignore")
            scheme = pl.build_scheme(cfg, src)
            _, x0, lb_, ub_ = scheme.parameters.get_label_value_and_bounds_arrays(exclude_non_vary=True)
            pts = points or [np.asarray(x0, dtype=float) * (1.0 + 0.05 * (k + 1)) for k in range(K - 1)]
            from_model = False
            if not points and pts:
                # entries of the optimiser's trial points that the solver's counterexample fixes (clipped into the bounds)
                for k in range(1, K):
                    for i in range(len(x0)):
                        v = env.get(f"X{k}_{i}") if isinstance(env, dict) and f"X{k}_{i}" in env.keys() else None
                        if v is not None and np.isfinite(v) and abs(v) < 50:
                            pts[k - 1] = np.array(pts[k - 1], dtype=float)
                            pts[k - 1][i] = min(max(float(v), float(lb_[i])), float(ub_[i]))
                            from_model = True
            if not points and pts and not from_model:
                # the last point sits on a bound where there is one (scipy then reports it in active_mask)
                last = np.minimum(np.maximum(pts[-1], np.asarray(lb_, dtype=float)), np.asarray(ub_, dtype=float))
                for i_ in range(len(last)):
                    if np.isfinite(lb_[i_]):
                        last[i_] = lb_[i_]
                        break
                    if np.isfinite(ub_[i_]):
                        last[i_] = ub_[i_]
                        break
                pts[-1] = last
            ls = optim.AdversarialLeastSquares(None, K=K, symbolic=False, points=pts, pick=pick)
            ls.jac_scale = jac_scale  # small / large standard errors (both sides of the log-space comparison)
            with Patcher() as p2:
                optim.install_optimizer_stubs(p2, None, src, ls, None)
                opt = Optimizer(scheme, verbose=False)
                pl.FAULT_HOOK["opt"] = opt  # lets a matrix-evaluation hook look at the optimizer's current parameters
                try:
                    opt.optimize()
                    res = opt.create_result()
                finally:
                    pl.FAULT_HOOK.pop("opt", None)
    return res, ls


def concrete(cfg, env):
    res, ls = float_optimize(cfg, c02.DefaultEnv(env), K=cfg.get("K", 2))
    return {"n_res": int(res.number_of_residuals), "n_clp": int(res.number_of_clps), "dof": int(res.degrees_of_freedom)}


def _check_float(cfg, env, pick=None, jac_scale=1.0):
    try:
        res, ls = float_optimize(cfg, env, K=cfg.get("K", 2), pick=pick, jac_scale=jac_scale)
    except Exception as ex:  # noqa: BLE001
        return True, f"config {cfg['name']}: optimize/create_result raised {type(ex).__name__}: {ex}"
    n_data, n_clp, n_free = _dof(cfg)
    head = f"config {cfg['name']}"
    pens = [float(v) for g in (res.additional_penalty or []) for v in np.asarray(g).flat]
    if res.number_of_residuals != n_data + len(pens):
        return True, f"{head}: number_of_residuals {res.number_of_residuals} != data points {n_data} + penalties {len(pens)}"
    if res.number_of_clps != n_clp:
        return True, f"{head}: number_of_clps {res.number_of_clps} != {n_clp} coefficients remaining after constraints/relations"
    if res.degrees_of_freedom != res.number_of_residuals - n_free - n_clp:
        return True, f"{head}: degrees_of_freedom {res.degrees_of_freedom}"
    tot = sum(p * p for p in pens)
    for ds in cfg["datasets"]:
        r = res.data[ds["label"]]
        var = "weighted_residual" if "weighted_residual" in r else "residual"
        tot += float((np.asarray(r[var].data, dtype=float) ** 2).sum())
        rm = float(np.sqrt((np.asarray(r["residual"].data, dtype=float) ** 2).sum() / r["residual"].size))
        if abs(rm - float(r.attrs["root_mean_square_error"])) > 1e-9 * max(1, rm):
            return True, f"{head}: dataset {ds['label']} root_mean_square_error {r.attrs['root_mean_square_error']} != {rm}"
    tol = 1e-8 * max(1.0, abs(tot))
    if abs(res.chi_square - tot) > tol:
        return True, f"{head}: chi_square {res.chi_square} != sum of squared weighted residuals of the result datasets + penalties {tot}"
    if abs(float(res.cost) - res.chi_square / 2) > tol:
        return True, f"{head}: cost {res.cost} != chi_square/2 = {res.chi_square / 2}"
    if abs(res.reduced_chi_square - res.chi_square / res.degrees_of_freedom) > tol:
        return True, f"{head}: reduced_chi_square {res.reduced_chi_square}"
    if abs(res.root_mean_square_error - np.sqrt(res.reduced_chi_square)) > tol:
        return True, f"{head}: root_mean_square_error {res.root_mean_square_error}"
    jac = np.asarray(res.jacobian, dtype=float)
    cov = np.asarray(res.covariance_matrix, dtype=float)
    want = np.linalg.pinv(jac.T @ jac)
    if cov.shape != want.shape or not np.allclose(cov, want, rtol=1e-6, atol=1e-9):
        return True, f"{head}: covariance {cov.tolist()} is not the pseudo-inverse of J^T J {want.tolist()}"
    free = optim.free_parameter_spec(cfg)
    if list(res.free_parameter_labels) != free:
        return True, f"{head}: free_parameter_labels {res.free_parameter_labels} != {free}"
    x = np.asarray(ls.evals[ls.returned][0], dtype=float)
    for k, lab in enumerate(free):
        p = res.optimized_parameters.get(lab)
        err = res.root_mean_square_error * np.sqrt(cov[k, k])
        wantv = float(np.exp(x[k])) if p.non_negative else float(x[k])
        if abs(p.value - wantv) > 1e-9 * max(1, abs(wantv)):
            return True, f"{head}: optimized {lab} = {p.value}, optimiser's x[{k}] gives {wantv}"
        if p.non_negative:
            want_se = p.value * (np.exp(err) - 1.0) if err < abs(np.log(p.value)) else abs(p.value)
        else:
            want_se = err
        if abs(p.standard_error - want_se) > 1e-8 * max(1, abs(want_se)):
            return True, f"{head}: standard error of {lab} is {p.standard_error}, rmse*sqrt(cov[{k},{k}]) gives {want_se}"
    return False, "float statistics consistent"


def replay(data):
    last = (False, "")
    for env in (c02.salted("r1"), c02.salted("r2"), c02.DefaultEnv(dict(data["env"]))):
        # last / an earlier point returned; Jacobian magnitudes; a numerically rank deficient Jacobian (singular value between eps and sqrt(eps))
        for pick, jsc in ((None, 1.0), (0, 1.0), (None, 1e3), (0, 1e-2), (None, "near-singular")):
            v, d = _check_float(data["cfg"], env, pick=pick, jac_scale=jsc)
            if v:
                return v, d
            last = (v, d)
    return last
