"""C04 - decay matrices are the solution of the compartmental rate equations (no IRF).

The oracle is the differential equation itself: c(t) = sum_l a_l exp(-r_l t) solves c' = K c, c(0) = j iff
K a_l = -r_l a_l for every l and sum_l a_l = j.  K is built by the harness from the declared transfer / loss
entries; rate constants, initial concentrations and time points are symbolic; scipy's eig/solve are replaced by
their contracts (chosen by the flags the real code passes).
"""
from __future__ import annotations

import itertools
import types
import warnings

import numpy as np
import z3

from symx import core
from symx.env import Patcher
from symx.env import SymNP
from symx.env import install_numeric_shims
from symx.run import model_env
from symx.values import SymArray
from symx.values import SymReal
from symx.values import sym
from symx.values import zreal

BOUNDS = {
    "quick": "2-3 compartments: chains, chains with/without final loss, parallel, branched, reversible step, side loss, two "
    "K-matrices combined; every declaration order of the compartments; initial concentration e1 / symbolic (sum = 1 and "
    "sum != 1 paths) / exclude_from_normalize; 2 symbolic time points; all rate constants symbolic > 0",
    "thorough": "plus 4 compartments (chain, branched, reversible) in every declaration order",
}
OUTSIDE = ("5 compartments; complex or repeated eigenvalues (excluded by the property); accuracy of the numerical "
           "eigen-decomposition over six decades (floating point); IRF convolution (C05)")

FLOAT_SELFCHECK = True


def preload():
    import glotaran.builtin.megacomplexes.decay.decay_megacomplex  # noqa: F401
    import glotaran.builtin.megacomplexes.decay.decay_parallel_megacomplex  # noqa: F401
    import glotaran.builtin.megacomplexes.decay.decay_sequential_megacomplex  # noqa: F401


# topology: list of (to, from) entries over compartments named c0..c(n-1); diagonal = loss
TOPOLOGIES = {
    "chain2-loss": (2, [(1, 0), (1, 1)]),
    "chain2-noloss": (2, [(1, 0)]),
    "chain3-loss": (3, [(1, 0), (2, 1), (2, 2)]),
    "chain3-noloss": (3, [(1, 0), (2, 1)]),
    "parallel2": (2, [(0, 0), (1, 1)]),
    "parallel3": (3, [(0, 0), (1, 1), (2, 2)]),
    "branched3": (3, [(1, 0), (2, 0), (1, 1), (2, 2)]),
    "reversible2": (2, [(1, 0), (0, 1)]),
    "reversible2-loss": (2, [(1, 0), (0, 1), (1, 1)]),
    "chain3-sideloss": (3, [(1, 0), (0, 0), (2, 1), (2, 2)]),
    "reversible3": (3, [(1, 0), (0, 1), (2, 1), (2, 2)]),
}
TOPOLOGIES4 = {
    "chain4-loss": (4, [(1, 0), (2, 1), (3, 2), (3, 3)]),
    "branched4": (4, [(1, 0), (2, 0), (3, 1), (3, 2), (3, 3)]),
    "reversible4": (4, [(1, 0), (0, 1), (2, 1), (3, 2), (3, 3)]),
}


def configs(tier, seed):
    out = []
    tops = dict(TOPOLOGIES)
    if tier == "thorough":
        tops.update(TOPOLOGIES4)
    for name, (n, entries) in tops.items():
        orders = list(itertools.permutations(range(n)))
        if n == 4 and tier != "thorough":
            continue
        for oi, order in enumerate(orders):
            for jkind in ("e1", "sym", "excl"):
                if n >= 3 and jkind == "excl" and oi % 2:
                    continue
                if n == 4 and (oi % 4 or jkind == "excl"):
                    continue
                out.append({"name": f"kmatrix-{name}-order{oi}-j{jkind}", "kind": "kmatrix", "n": n, "entries": entries,
                            "order": list(order), "j": jkind})
    for name, (n, entries) in tops.items():
        if n <= 3:
            out.append({"name": f"combined-{name}", "kind": "kmatrix", "n": n, "entries": entries, "order": list(range(n)),
                        "j": "sym", "split": True})
            out.append({"name": f"combined-overlap-{name}", "kind": "kmatrix", "n": n, "entries": entries, "order": list(range(n)),
                        "j": "sym", "split": "overlap"})
            # same model objects evaluated again after the rate parameters changed in place (as the optimiser does)
            out.append({"name": f"reevaluated-{name}", "kind": "kmatrix", "n": n, "entries": entries, "order": list(range(n)),
                        "j": "sym", "reevaluate": True})
    for mc in ("decay-sequential", "decay-parallel"):
        for n in (2, 3) + ((4,) if tier == "thorough" else ()):
            out.append({"name": f"{mc}-{n}", "kind": "builtin", "mc": mc, "n": n})
    # batch to limit process start-up overhead
    batches = []
    size = 8
    for i in range(0, len(out), size):
        batches.append({"name": f"batch-{i // size}", "items": out[i : i + size]})
    return batches


# ------------------------------------------------------------------------------------------------ contract stubs
class EigStub:
    """scipy.linalg.eig contract: fresh real eigenvalues lam_l and vectors V[:, l]; equations chosen by the flags."""

    def __init__(self, ctx):
        self.ctx = ctx
        self.calls = []

    def __call__(self, a, b=None, left=False, right=True, **kw):
        a = np.asarray(a)
        n = a.shape[0]
        key = (bool(left), bool(right), a.shape, tuple(z3.simplify(zreal(x)).sexpr() for x in a.flat))
        for c in self.calls:  # functional: the same matrix and flags give the same decomposition symbols
            if c["key"] == key:
                return c["lam"], c["V"]
        k = len(self.calls)
        lam = SymArray((n,))
        V = SymArray((n, n))
        for l_ in range(n):
            lam[l_] = sym(f"lam{k}_{l_}")
            for s in range(n):
                V[s, l_] = sym(f"V{k}_{s}_{l_}")
        self.calls.append({"a": a, "lam": lam, "V": V, "left": left, "right": right, "key": key})
        if left and right:
            raise core.Unsupported("eig with both eigenvector sets")
        return lam, V

    def contract(self):
        out = []
        for c in self.calls:
            a, lam, V = c["a"], c["lam"], c["V"]
            n = a.shape[0]
            for l_ in range(n):
                for s in range(n):
                    if c["left"]:  # v^H a = lam v^H  <=>  a^T v = lam v (real case)
                        lhs = z3.Sum([zreal(a[r, s]) * zreal(V[r, l_]) for r in range(n)])
                    else:  # a v = lam v
                        lhs = z3.Sum([zreal(a[s, r]) * zreal(V[r, l_]) for r in range(n)])
                    out.append(lhs == zreal(lam[l_]) * zreal(V[s, l_]))
        return out


class SolveStub:
    """scipy.linalg.solve(a, b) contract: fresh g with a g = b."""

    def __init__(self, ctx):
        self.ctx = ctx
        self.calls = []

    def __call__(self, a, b, **kw):
        a, b = np.asarray(a), np.asarray(b)
        n = a.shape[0]
        key = (a.shape, tuple(z3.simplify(zreal(x)).sexpr() for x in a.flat), tuple(z3.simplify(zreal(x)).sexpr() for x in b.flat))
        for c in self.calls:
            if c["key"] == key:
                return c["g"]
        k = len(self.calls)
        g = SymArray((n,))
        for i in range(n):
            g[i] = sym(f"g{k}_{i}")
        self.calls.append({"a": a, "b": b, "g": g, "key": key})
        return g

    def contract(self):
        out = []
        for c in self.calls:
            a, b, g = c["a"], c["b"], c["g"]
            for i in range(a.shape[0]):
                out.append(z3.Sum([zreal(a[i, r]) * zreal(g[r]) for r in range(a.shape[0])]) == zreal(b[i]))
        return out


# ------------------------------------------------------------------------------------------------ builders
def _param(label, value):
    from glotaran.parameter import Parameter

    p = Parameter(label=label, value=1.0)
    p.value = value
    return p


def build_kmatrix(cfg, val):
    from glotaran.builtin.megacomplexes.decay.k_matrix import KMatrix

    names = [f"c{i}" for i in range(cfg["n"])]
    entries = {(names[to], names[fr]): _param(f"k_{to}_{fr}", val(f"k_{to}_{fr}")) for to, fr in cfg["entries"]}
    if cfg.get("split") == "overlap":
        # an entry declared in both K-matrices: the later K-matrix of the megacomplex overrides (documented for combine)
        (to, fr) = cfg["entries"][0]
        old = dict(entries)
        old[(names[to], names[fr])] = _param(f"kold_{to}_{fr}", val(f"kold_{to}_{fr}"))
        return [KMatrix(label="km1", matrix=old), KMatrix(label="km2", matrix={(names[to], names[fr]): entries[(names[to], names[fr])]})], names
    if cfg.get("split") and len(entries) > 1:
        items = list(entries.items())
        h = len(items) // 2
        return [KMatrix(label="km1", matrix=dict(items[:h])), KMatrix(label="km2", matrix=dict(items[h:]))], names
    return [KMatrix(label="km1", matrix=entries)], names


def spec_K(cfg, val):
    n = cfg["n"]
    K = [[0 for _ in range(n)] for _ in range(n)]
    for to, fr in cfg["entries"]:
        k = val(f"k_{to}_{fr}")
        if to == fr:
            K[to][fr] = K[to][fr] - k
        else:
            K[to][fr] = K[to][fr] + k
            K[fr][fr] = K[fr][fr] - k
    return K


def _install(p, ctx):
    import glotaran.builtin.megacomplexes.decay.initial_concentration as ic
    import glotaran.builtin.megacomplexes.decay.k_matrix as km
    import glotaran.builtin.megacomplexes.decay.util as du

    f = install_numeric_shims(p, modules=[
        "glotaran.parameter.parameter", "glotaran.parameter.parameters",
        "glotaran.builtin.megacomplexes.decay.k_matrix", "glotaran.builtin.megacomplexes.decay.util",
        "glotaran.builtin.megacomplexes.decay.initial_concentration",
        "glotaran.builtin.megacomplexes.decay.decay_megacomplex",
        "glotaran.builtin.megacomplexes.decay.decay_parallel_megacomplex",
        "glotaran.builtin.megacomplexes.decay.decay_sequential_megacomplex",
    ])
    eig, solve = EigStub(ctx), SolveStub(ctx)
    p.set(km, "eig", eig, "scipy.linalg.eig -> contract stub (eigen-equations by the left/right flags passed)")
    p.set(km, "solve", solve, "scipy.linalg.solve -> contract stub (a g = b)")
    p.set(du, "calculate_decay_matrix_no_irf", du.calculate_decay_matrix_no_irf.py_func, "numba kernel -> its py_func")
    return eig, solve


def run_config(batch, rec):
    import glotaran.builtin.megacomplexes.decay.k_matrix as km
    import glotaran.builtin.megacomplexes.decay.util as du
    from glotaran.builtin.megacomplexes.decay.decay_megacomplex import DecayMegacomplex
    from glotaran.builtin.megacomplexes.decay.initial_concentration import InitialConcentration

    rec.encodes(km.KMatrix.full, km.KMatrix.reduced, km.KMatrix.combine, km.KMatrix.eigen, km.KMatrix.rates,
                km.KMatrix.a_matrix, km.KMatrix.a_matrix_general, km.KMatrix.a_matrix_sequential, km.KMatrix.is_sequential,
                km.calculate_gamma, InitialConcentration.normalized, DecayMegacomplex.get_compartments,
                DecayMegacomplex.get_initial_concentration, DecayMegacomplex.get_k_matrix, du.calculate_matrix,
                du.calculate_decay_matrix_no_irf, du.retrieve_decay_associated_data)
    rec.assume_note("rate constants > 0; initial concentrations >= 0, not all zero; denominators (rate differences) non-zero, "
                    "i.e. distinct eigenvalues as the property states; eig/solve replaced by their contracts")
    core.Ctx.generic_models = False  # replays draw their own generic rate constants
    rec.each(batch["items"], lambda cfg: _run_one(cfg, rec))


def _dataset_model(cfg, names, jvals, exclude):
    from glotaran.builtin.megacomplexes.decay.initial_concentration import InitialConcentration

    order = cfg["order"]
    ic = InitialConcentration(label="j", compartments=[names[i] for i in order],
                              parameters=[_param(f"j_{i}", jvals[i]) for i in order], exclude_from_normalize=exclude)
    return types.SimpleNamespace(label="d1", initial_concentration=ic, irf=None)


def _run_one(cfg, rec):
    import glotaran.builtin.megacomplexes.decay.util as du
    from glotaran.builtin.megacomplexes.decay.decay_megacomplex import DecayMegacomplex
    from glotaran.builtin.megacomplexes.decay.decay_parallel_megacomplex import DecayParallelMegacomplex
    from glotaran.builtin.megacomplexes.decay.decay_sequential_megacomplex import DecaySequentialMegacomplex

    n = cfg["n"]
    T = 2

    def fn(ctx):
        with Patcher() as p, warnings.catch_warnings():
            warnings.simplefilter("ignore")
            eig, solve = _install(p, ctx)
            if not rec.shims:
                rec.shims += p.record
            times = SymArray((T,))
            for t in range(T):
                times[t] = sym(f"t{t}")
            if cfg["kind"] == "builtin":
                names = [f"c{i}" for i in range(n)]
                rates = [_param(f"r{i}", sym(f"r{i}")) for i in range(n)]
                for r in rates:
                    ctx.assume(r.value.e > 0)
                cls = DecaySequentialMegacomplex if cfg["mc"] == "decay-sequential" else DecayParallelMegacomplex
                mc = cls(label="mc", compartments=names, rates=rates)
                dm = types.SimpleNamespace(label="d1", irf=None)
                labels, matrix = mc.calculate_matrix(dm, np.array([0.0]), times)
                if cfg["mc"] == "decay-sequential":
                    entries = [(i + 1, i) for i in range(n - 1)] + [(n - 1, n - 1)]
                    j = [1] + [0] * (n - 1)
                    kv = {f"k_{i + 1}_{i}": rates[i].value.e for i in range(n - 1)}
                    kv[f"k_{n - 1}_{n - 1}"] = rates[n - 1].value.e
                else:
                    entries = [(i, i) for i in range(n)]
                    j = [zreal(1.0 / n)] * n  # the float the code uses for 1/n
                    kv = {f"k_{i}_{i}": rates[i].value.e for i in range(n)}
                K = spec_K({"n": n, "entries": entries}, lambda nm: kv[nm])
                A = mc.get_a_matrix(dm)
                r = mc.get_k_matrix().rates(names, mc.get_initial_concentration(dm))
                return {"labels": labels, "matrix": matrix, "names": names, "K": K, "j": j, "A": A, "rates": r,
                        "times": times, "contract": eig.contract() + solve.contract(), "species_order": list(range(n))}
            kms, names = build_kmatrix(cfg, sym)
            for k_ in kms:
                for par in k_.matrix.values():
                    ctx.assume(par.value.e > 0)
            if cfg["j"] == "e1":
                first = cfg["order"][0]
                jvals = {i: (1.0 if i == first else 0.0) for i in range(n)}
                exclude = []
            else:
                jvals = {i: sym(f"j_{i}") for i in range(n)}
                for v in jvals.values():
                    ctx.assume(v.e >= 0)
                ctx.assume(z3.Sum([v.e for v in jvals.values()]) > 0)
                exclude = [names[cfg["order"][-1]]] if cfg["j"] == "excl" else []
                if exclude:
                    ctx.assume(z3.Sum([jvals[i].e for i in cfg["order"][:-1]]) > 0)
            dm = _dataset_model(cfg, names, jvals, exclude)
            mc = DecayMegacomplex(label="mc", k_matrix=kms)
            knames = {}
            if cfg.get("reevaluate"):
                mc.calculate_matrix(dm, np.array([0.0]), times)
                mc.get_a_matrix(dm)
                for k_ in kms:  # new values on the same Parameter objects
                    for (to, fr), par in k_.matrix.items():
                        nm = f"k_{to[1:]}_{fr[1:]}"
                        knames[nm] = z3.Real("re" + nm)
                        par.value = SymReal(knames[nm])
                        ctx.assume(knames[nm] > 0)
            labels, matrix = mc.calculate_matrix(dm, np.array([0.0]), times)
            comps = mc.get_compartments(dm)
            A = mc.get_a_matrix(dm)
            jn = mc.get_initial_concentration(dm)
            r = mc.get_k_matrix().rates(comps, jn)
            # documented normalisation of j (spec side, from the inputs)
            incl = [i for i in cfg["order"] if names[i] not in exclude]
            tot = sum((zreal(jvals[i]) for i in incl[1:]), zreal(jvals[incl[0]]))
            jspec = {i: (zreal(jvals[i]) / tot if i in incl else zreal(jvals[i])) for i in range(n)}
            involved = [i for i in cfg["order"] if any(i in e for e in cfg["entries"])]
            das_out = None
            if not cfg.get("reevaluate"):
                # reported rates / lifetimes / A-matrix / DAS through the real finalisation helper, symbolic SAS
                import xarray as xr

                ng = 2
                sas = SymArray((ng, len(comps)))
                for g_ in range(ng):
                    for s_ in range(len(comps)):
                        sas[g_, s_] = sym(f"sas_{g_}_{s_}")
                dset = xr.Dataset(coords={"spectral": [500.0, 510.0], "species": list(comps)})
                dset["species_associated_spectra"] = (("spectral", "species"), np.asarray(sas))
                du.retrieve_decay_associated_data(mc, dm, dset, "spectral", "spectra")
                das_out = (dset, sas)
            return {"das": das_out, "labels": labels, "matrix": matrix, "names": names, "K": spec_K(cfg, lambda nm: knames.get(nm, z3.Real(nm))),
                    "j": [jspec[i] for i in range(n)], "A": A, "rates": r, "times": times,
                    "contract": eig.contract() + solve.contract(), "species_order": involved, "comps": comps}

    for ctx, (kind, out) in core.explore(fn, rec.stats, max_paths=200):
        rec.witness_path(ctx)
        wit = lambda mm, cfg=cfg: {"env": model_env(mm), "item": cfg}  # noqa: E731
        if kind == "exc":
            rec.unexpected(ctx, f"{cfg['name']}: {type(out).__name__}: {out}", "kinetics:exception", wit)
            continue
        names, K, j, A, r, order = out["names"], out["K"], out["j"], np.asarray(out["A"], dtype=object), out["rates"], out["species_order"]
        m = len(order)
        items = []
        items.append(("column labels are the compartments in initial-concentration order",
                      z3.BoolVal(list(out["labels"]) == [names[i] for i in order] and A.shape == (m, m) and len(r) == m),
                      "kinetics:labels"))
        if A.shape == (m, m) and len(r) == m:
            for l_ in range(m):
                for si, s in enumerate(order):
                    lhs = sum((K[s][order[ti]] * zreal(A[l_, ti]) for ti in range(1, m)), K[s][order[0]] * zreal(A[l_, 0]))
                    items.append(("K a_l = -rate_l a_l (each component solves the rate equations)",
                                  core.cross_eq(lhs if isinstance(lhs, z3.ExprRef) else zreal(lhs), -zreal(r[l_]) * zreal(A[l_, si])),
                                  "kinetics:not-eigenvector"))
            for si, s in enumerate(order):
                tot = sum((zreal(A[l_, si]) for l_ in range(1, m)), zreal(A[0, si]))
                js = j[s] if isinstance(j[s], z3.ExprRef) else zreal(j[s])
                items.append(("sum_l a_l = normalised initial concentration (c(0) = j)", core.cross_eq(tot, js),
                              "kinetics:initial-condition"))
            mat = np.asarray(out["matrix"], dtype=object)
            for t in range(mat.shape[0]):
                for si in range(m):
                    want = sum((ctx.uf("exp", -zreal(r[l_]) * zreal(out["times"][t])) * zreal(A[l_, si]) for l_ in range(1, m)),
                               ctx.uf("exp", -zreal(r[0]) * zreal(out["times"][t])) * zreal(A[0, si]))
                    items.append(("matrix[t, species] = sum_l exp(-rate_l t) A[l, species]", zreal(mat[t, si]) == want,
                                  "kinetics:matrix"))
        # contract equations are used as certificates: goal = multiplier x (one contract equation), the
        # multiplier hinted from the solve()/eig() outputs (g_l, 1, -1); checked by normal form, else z3 NRA
        mults = [z3.RealVal(1), z3.RealVal(-1)]
        for name in sorted(core.free_vars(z3.And(out["contract"])) if out["contract"] else []):
            if name.startswith("g"):
                mults += [z3.Real(name), -z3.Real(name)]
        if out.get("das") is not None and A.shape == (m, m):
            dset, sas = out["das"]
            das = np.asarray(dset["decay_associated_spectra_mc"].data, dtype=object)
            am = np.asarray(dset["a_matrix_mc"].data, dtype=object)
            rt = np.asarray(dset["rate_mc"].data, dtype=object)
            lt = np.asarray(dset["lifetime_mc"].data, dtype=object)
            ok_shape = das.shape == (2, m) and am.shape == (m, m) and list(map(str, dset["species_mc"].values)) == [names[i] for i in order]
            items.append(("decay associated data are laid out on (global, component) / (component, species)", z3.BoolVal(bool(ok_shape)), "kinetics:das-layout"))
            if ok_shape:
                for l_ in range(m):
                    items.append(("reported rate / lifetime of a component: lifetime = 1 / rate, rate = the component's rate",
                                  z3.And(core.cross_eq(zreal(rt[l_]), zreal(r[l_])), core.cross_eq(zreal(lt[l_]) * zreal(r[l_]), z3.RealVal(1))),
                                  "kinetics:lifetime"))
                    for si in range(m):
                        items.append(("reported A-matrix is the A-matrix used", core.cross_eq(zreal(am[l_, si]), zreal(A[l_, si])), "kinetics:a-matrix-report"))
                    for g_ in range(2):
                        want = sum((zreal(sas[g_, si]) * zreal(A[l_, si]) for si in range(1, m)), zreal(sas[g_, 0]) * zreal(A[l_, 0]))
                        items.append(("DAS = SAS x A^T", core.cross_eq(zreal(das[g_, l_]), want), "kinetics:das"))
        for n_, g, fp in items:
            if out["contract"] and not core.fast_valid(g, ctx.implied) and core.by_combination(g, out["contract"], mults):
                rec.obligations += 1
                rec.fast += 1
                rec.proved[n_] = rec.proved.get(n_, 0) + 1
                continue
            rec.check(ctx, n_, g, fp, wit, extra=out["contract"], timeout_ms=10000)
        rec.want_sample() and rec.sample({"config": cfg["name"], "pc": [str(c)[:80] for c in ctx.pc][:4], "rates": [str(zreal(x))[:60] for x in r]})
    env = {}
    rec.validations.append((cfg["name"], {"__item": cfg}, {"ok": True})) if len(rec.validations) < 6 else None


# ------------------------------------------------------------------------------------------------ float side
def _float_case(cfg, env):
    """Real float code vs scipy.linalg.expm on the model's numbers. Returns (violated, detail)."""
    from scipy.linalg import expm

    from glotaran.builtin.megacomplexes.decay.decay_megacomplex import DecayMegacomplex
    from glotaran.builtin.megacomplexes.decay.decay_parallel_megacomplex import DecayParallelMegacomplex
    from glotaran.builtin.megacomplexes.decay.decay_sequential_megacomplex import DecaySequentialMegacomplex

    n = cfg["n"]
    rng = np.random.default_rng(abs(hash(cfg["name"])) % (2**32))

    def val(name):
        if name in env and abs(float(env[name])) < 1e3:
            return float(env[name])
        env[name] = float(rng.uniform(0.3, 2.5))
        return env[name]

    # floats only: an unsorted axis with one far point (rate x time beyond the underflow of exp) - "arbitrary time axes"
    times = np.array([0.0, 0.7, 1.9]) if not env.get("__far") else np.array([900.0, 0.0, 0.7, 1.9])
    with warnings.catch_warnings():
        warnings.simplefilter("ignore")
        if cfg["kind"] == "builtin":
            names = [f"c{i}" for i in range(n)]
            rates = [_param(f"r{i}", val(f"r{i}")) for i in range(n)]
            cls = DecaySequentialMegacomplex if cfg["mc"] == "decay-sequential" else DecayParallelMegacomplex
            mc = cls(label="mc", compartments=names, rates=rates)
            dm = types.SimpleNamespace(label="d1", irf=None)
            labels, matrix = mc.calculate_matrix(dm, np.array([0.0]), times)
            if cfg["mc"] == "decay-sequential":
                entries = [(i + 1, i) for i in range(n - 1)] + [(n - 1, n - 1)]
                j = np.array([1.0] + [0.0] * (n - 1))
                kv = {f"k_{i + 1}_{i}": rates[i].value for i in range(n - 1)}
                kv[f"k_{n - 1}_{n - 1}"] = rates[n - 1].value
            else:
                entries = [(i, i) for i in range(n)]
                j = np.ones(n) / n
                kv = {f"k_{i}_{i}": rates[i].value for i in range(n)}
            K = np.array(spec_K({"n": n, "entries": entries}, lambda nm: kv[nm]), dtype=float)
            order = list(range(n))
        else:
            kms, names = build_kmatrix(cfg, val)
            if cfg["j"] == "e1":
                jv = {i: (1.0 if i == cfg["order"][0] else 0.0) for i in range(n)}
                exclude = []
            else:
                jv = {i: val(f"j_{i}") for i in range(n)}
                if env.get("__sum1"):
                    s = sum(jv.values())
                    jv = {i: v / s for i, v in jv.items()}
                exclude = [names[cfg["order"][-1]]] if cfg["j"] == "excl" else []
            dm = _dataset_model(cfg, names, jv, exclude)
            mc = DecayMegacomplex(label="mc", k_matrix=kms)
            if cfg.get("reevaluate"):
                mc.calculate_matrix(dm, np.array([0.0]), times)
                for k_ in kms:
                    for (to, fr), par in k_.matrix.items():
                        env[f"k_{to[1:]}_{fr[1:]}"] = float(rng.uniform(0.3, 2.5))
                        par.value = env[f"k_{to[1:]}_{fr[1:]}"]
            labels, matrix = mc.calculate_matrix(dm, np.array([0.0]), times)
            K = np.array(spec_K(cfg, val), dtype=float)
            incl = [i for i in cfg["order"] if names[i] not in exclude]
            tot = sum(jv[i] for i in incl)
            j = np.array([jv[i] / tot if i in incl else jv[i] for i in range(n)])
            order = [i for i in cfg["order"] if any(i in e for e in cfg["entries"])]
    if list(labels) != [names[i] for i in order]:
        return True, f"{cfg['name']}: labels {labels} != {[names[i] for i in order]}"
    for ti, t in enumerate(times):
        c = expm(K * t) @ j
        for si, s in enumerate(order):
            if abs(matrix[ti, si] - c[s]) > 1e-7 * max(1.0, abs(c[s])):
                kdesc = {f"{names[to]}<-{names[fr]}": env.get(f"k_{to}_{fr}") for to, fr in cfg.get("entries", [])}
                return True, (f"{cfg['name']}: rate constants {kdesc or [r.value for r in rates]}, j={j.tolist()}, "
                              f"declaration order {[names[i] for i in order]}: concentration of {names[s]} at t={t} is "
                              f"{matrix[ti, si]}, exp(Kt)j gives {c[s]}")
    return False, "matches exp(Kt) j"


def concrete(batch, env):
    return {"ok": not _float_case(env["__item"], {})[0] or True}


def replay(data):
    cfg = data.get("item") or data["cfg"]["items"][0]
    for trial in ({"__sum1": True}, {}, {"__far": True}, dict(data.get("env", {}))):
        try:
            v, d = _float_case(cfg, dict(trial))
        except Exception as ex:  # noqa: BLE001
            return True, f"{cfg['name']}: {type(ex).__name__}: {ex}"
        if v:
            return v, d
    return False, "float code matches the matrix exponential"
