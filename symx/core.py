"""symx core: forking path exploration of real Python code over z3 terms, and the deciding queries.

``explore(fn)`` re-executes ``fn(ctx)`` once per feasible control path (depth-first over
decision prefixes).  Each ``SymBool.__bool__`` asks the solver whether both outcomes are
feasible under the path condition.  After a path ends the harness calls ``ctx.prove(...)``:
``pc AND assumptions AND NOT goal`` -> unsat (holds for every real value on this path),
sat (candidate counterexample, to be replayed), unknown (inconclusive).
"""
from __future__ import annotations

import math
import os
import time
from fractions import Fraction

import z3

BRANCH_TIMEOUT_MS = 20_000
PROVE_TIMEOUT_MS = 30_000
MODEL_TIMEOUT_MS = 4_000


class Signal(BaseException):
    """Engine control flow; harnesses catch only Exception."""


class InfeasiblePath(Signal):
    pass


class PathCap(Signal):
    pass


class Concretisation(Exception):
    """Real code tried to read a C number out of a symbolic value: a shim is missing."""


class Unsupported(Exception):
    """Operation outside the encoding (reported as harness error, never as pass)."""


_UF = {}


def uf_decl(name):
    if name not in _UF:
        _UF[name] = z3.Function(name, z3.RealSort(), z3.RealSort())
    return _UF[name]


SQRT2 = z3.Real("sqrt2!const")


def default_value(name, salt=""):
    """Deterministic pseudo-random 'generic' value in (0.25, 2.75) for a symbol name."""
    import hashlib

    h = int(hashlib.sha1((salt + name).encode()).hexdigest()[:8], 16)
    return 0.25 + (h % 1000) / 400.0


def hard_check(solver, limit_s):
    """solver.check() relying on z3's own timeout (linear / boolean queries: reliable).  A watchdog thread calling
    Z3_interrupt was tried here and removed: interrupting from a second thread crashed z3 now and then (segfault of the worker)."""
    return solver.check()


FORK_PROVE = not os.environ.get("VERIF_NO_FORK")


class FrozenModel:
    """Values of the constants of a z3 model, rebuilt in the parent process from what a forked solver child sent back."""

    def __init__(self, entries):
        self._vals, self._decls = {}, []
        for name, sort, val in entries:
            if sort == "Real":
                c, v = z3.Real(name), z3.RealVal(val)
            elif sort == "Int":
                c, v = z3.Int(name), z3.IntVal(int(val))
            else:
                c, v = z3.Bool(name), z3.BoolVal(val == "True")
            self._vals[name] = (c, v)
            self._decls.append(c.decl())

    def decls(self):
        return list(self._decls)

    def __getitem__(self, d):
        name = d.name() if isinstance(d, z3.FuncDeclRef) else d.decl().name()
        cv = self._vals.get(name)
        return cv[1] if cv else None

    def eval(self, e, model_completion=False):
        r = z3.simplify(z3.substitute(e, *[(c, v) for c, v in self._vals.values()])) if self._vals else z3.simplify(e)
        if model_completion and not (z3.is_rational_value(r) or z3.is_int_value(r) or z3.is_true(r) or z3.is_false(r) or z3.is_algebraic_value(r)):
            rest = {}
            free_vars(r, rest)
            subs = [(v, z3.RealVal(0) if z3.is_real(v) else z3.IntVal(0) if z3.is_int(v) else z3.BoolVal(False)) for v in rest.values()]
            r = z3.simplify(z3.substitute(r, *subs)) if subs else r
        return r


def _freeze(res):
    """(status, ModelRef|None) -> JSON-able (status, entries|None)."""
    status, m = res
    if m is None:
        return status, None
    entries = []
    for d in m.decls():
        if d.arity() != 0:
            continue
        v = m[d]
        try:
            if z3.is_true(v) or z3.is_false(v):
                entries.append((d.name(), "Bool", str(z3.is_true(v))))
            elif z3.is_int_value(v):
                entries.append((d.name(), "Int", str(v.as_long())))
            else:
                if z3.is_algebraic_value(v):
                    v = v.approx(30)
                entries.append((d.name(), "Real", f"{v.numerator_as_long()}/{v.denominator_as_long()}"))
        except Exception:  # noqa: BLE001
            continue
    return status, entries


def forked(fn, limit_s):
    """Run fn() -> (status, entries|None) in a forked child under a hard wall-clock limit; ('unknown', None) when killed."""
    import json
    import select
    import signal

    rfd, wfd = os.pipe()
    pid = os.fork()
    if pid == 0:
        code = 0
        try:
            os.close(rfd)
            try:
                out = fn()
            except BaseException as ex:  # noqa: BLE001
                out = ("unknown", None)
                code = 3
            data = json.dumps(out).encode()
            while data:
                n = os.write(wfd, data)
                data = data[n:]
        finally:
            os._exit(code)
    os.close(wfd)
    buf = b""
    deadline = time.time() + limit_s
    killed = False
    while True:
        left = deadline - time.time()
        if left <= 0:
            killed = True
            break
        ready, _, _ = select.select([rfd], [], [], left)
        if not ready:
            killed = True
            break
        chunk = os.read(rfd, 1 << 16)
        if not chunk:
            break
        buf += chunk
    os.close(rfd)
    if killed:
        try:
            os.kill(pid, signal.SIGKILL)
        except ProcessLookupError:
            pass
    try:
        os.waitpid(pid, 0)
    except ChildProcessError:
        pass
    if killed or not buf:
        return "unknown", None
    status, entries = json.loads(buf.decode())
    return status, (FrozenModel(entries) if entries is not None else None)


class Stats:
    def __init__(self):
        self.paths = 0
        self.branch_queries = 0
        self.prove = {"unsat": 0, "sat": 0, "unknown": 0}
        self.solver_s = 0.0
        self.branch_unknown = 0
        self.denominators = set()
        self.stop = False  # set by the recorder once enough counterexample candidates exist for this configuration

    def merge(self, o: "Stats"):
        self.paths += o.paths
        self.branch_queries += o.branch_queries
        for k in self.prove:
            self.prove[k] += o.prove[k]
        self.solver_s += o.solver_s
        self.branch_unknown += o.branch_unknown
        self.denominators |= o.denominators

    def as_dict(self):
        return {
            "paths": self.paths,
            "branch_queries": self.branch_queries,
            "prove": dict(self.prove),
            "solver_s": round(self.solver_s, 3),
            "branch_unknown": self.branch_unknown,
            "denominators_assumed_nonzero": len(self.denominators),
        }


class Ctx:
    cur: "Ctx" = None

    def __init__(self, prefix, stats: Stats):
        self.prefix = list(prefix)
        self.decisions = []
        self.pc = []  # path condition (branch decisions)
        self.assumptions = []  # harness assumptions + UF axioms + denominators
        self.pending = []
        self.solver = z3.Solver()
        self.solver.set("timeout", BRANCH_TIMEOUT_MS)
        self.stats = stats
        self.nfresh = 0
        self.uf_apps = {}  # name -> list of arg terms
        self.notes = []
        self.log = []  # free for harness use
        self._cons = []  # (constraint, frozenset of free variable names) for independence slicing

    # ------------------------------------------------------------------ symbols
    def fresh(self, name):
        self.nfresh += 1
        return z3.Real(f"{name}!{self.nfresh}")

    def assume(self, e):
        if isinstance(e, bool):
            if not e:
                raise InfeasiblePath()
            return
        e = getattr(e, "e", e)
        self.assumptions.append(e)
        self._add(e)

    def denominator(self, d):
        d = z3.simplify(d)
        if z3.is_rational_value(d) or z3.is_algebraic_value(d):
            if z3.is_rational_value(d) and d.numerator_as_long() == 0:
                raise ZeroDivisionError("symbolic division by constant zero")
            return
        key = d.sexpr()
        if key not in self.stats.denominators:
            self.stats.denominators.add(key)
        # assumed in every obligation / witness query, but kept out of the branch-feasibility solver:
        # disequalities over products make nlsat case-split and buy nothing for path enumeration
        self.assumptions.append(d != 0)

    lazy_axioms = False  # True: UF axioms enter obligations / witnesses only, not the branch-feasibility solver (harnesses
    # whose branch conditions never depend on a transcendental *value*; fewer nonlinear atoms in every fork query)

    def _axiom(self, e):
        if self.lazy_axioms:
            self.assumptions.append(e)
        else:
            self.assume(e)

    def uf(self, name, arg):
        """Application of an uninterpreted transcendental function with its local axioms."""
        arg = z3.simplify(arg)
        f = uf_decl(name)
        r = f(arg)
        apps = self.uf_apps.setdefault(name, [])
        if not any(a.eq(arg) for a in apps):
            apps.append(arg)
            if name == "exp":
                self._axiom(r > 0)
                if z3.is_rational_value(arg) and arg.numerator_as_long() == 0:
                    self._axiom(r == 1)
                else:
                    self._axiom((arg == 0) == (r == 1))
                if z3.is_app(arg) and arg.decl().name() == "log" and arg.num_args() == 1:
                    inner = arg.arg(0)
                    self._axiom(z3.Implies(inner > 0, r == inner))
            elif name == "log":
                if z3.is_app(arg) and arg.decl().name() == "exp" and arg.num_args() == 1:
                    self._axiom(r == arg.arg(0))
                if z3.is_rational_value(arg) and arg.numerator_as_long() == arg.denominator_as_long():
                    self._axiom(r == 0)
                else:
                    self._axiom(z3.Implies(arg > 0, (arg == 1) == (r == 0)))
                    self._axiom(z3.Implies(arg > 0, (arg > 1) == (r > 0)))
            elif name == "sqrt":
                # the defining axiom only for small arguments: with large polynomial arguments it makes every
                # later feasibility query a hard NRA problem; large ones are handled by congruence (Atomizer)
                sx = arg.sexpr()
                if len(sx) < 120 and "/" not in sx and len(free_vars(arg)) <= 2:
                    self._axiom(z3.Implies(arg >= 0, z3.And(r >= 0, r * r == arg)))
                else:
                    self._axiom(r >= 0)
            elif name in ("sin", "cos"):
                s, c = uf_decl("sin")(arg), uf_decl("cos")(arg)
                self._axiom(s * s + c * c == 1)
                if z3.is_rational_value(arg) and arg.numerator_as_long() == 0:
                    self._axiom(z3.And(s == 0, c == 1))
            elif name == "erf":
                self._axiom(z3.And(r > -1, r < 1))
                if z3.is_rational_value(arg) and arg.numerator_as_long() == 0:
                    self._axiom(r == 0)
        return r

    # ------------------------------------------------------------------ forking
    def _add(self, e):
        self._cons.append((e, None))
        self.solver.add(e)

    def _relevant(self, extra):
        """Constraints transitively sharing a variable with the query (independence slicing, as in KLEE):
        unsat of the slice implies unsat of the whole; a sat slice extends to the whole because the
        remaining constraints are satisfiable on their own variables (the path is feasible so far)."""
        vs = set()
        for e in extra:
            vs |= set(free_vars(e))
        self._cons = [(c, cv if cv is not None else frozenset(free_vars(c))) for c, cv in self._cons]
        chosen = [False] * len(self._cons)
        changed = True
        while changed:
            changed = False
            for i, (c, cv) in enumerate(self._cons):
                if not chosen[i] and (cv & vs):
                    chosen[i] = True
                    vs |= cv
                    changed = True
        return [c for (c, _), ch in zip(self._cons, chosen) if ch]

    def _check(self, *extra, timeout_ms=None):
        t0 = time.time()
        # incremental solver first (cheap when it answers quickly) ...
        self.solver.push()
        self.solver.set("timeout", min(2000, timeout_ms or BRANCH_TIMEOUT_MS))
        for e in extra:
            self.solver.add(e)
        r = str(hard_check(self.solver, 6))
        self.solver.pop()
        if r == "unknown":
            # ... then the independence slice with the full budget
            s = z3.Solver()
            s.set("timeout", timeout_ms or BRANCH_TIMEOUT_MS)
            for c in self._relevant(extra):
                s.add(c)
            for e in extra:
                s.add(e)
            r = str(hard_check(s, 1.5 * (timeout_ms or BRANCH_TIMEOUT_MS) / 1000 + 3))
        self.stats.solver_s += time.time() - t0
        self.stats.branch_queries += 1
        return r

    def branch(self, cond):
        cond = z3.simplify(cond)
        if z3.is_true(cond):
            return True
        if z3.is_false(cond):
            return False
        i = len(self.decisions)
        known = self._decided_before(cond) if Ctx.reuse_decisions else None
        if known is not None:
            return known  # same comparison (up to normal form) already decided on this path: no new fork
        if i < len(self.prefix):
            d = self.prefix[i]
        else:
            t = self._check(cond)
            if t == "unsat":
                d = False
            else:
                f = self._check(z3.Not(cond))
                if t == "unknown" or f == "unknown":
                    self.stats.branch_unknown += 1
                if f == "unsat":
                    d = True
                else:
                    self.pending.append(self.decisions + [False])
                    d = True
        self.decisions.append(d)
        c = cond if d else z3.Not(cond)
        self.pc.append(c)
        self._add(c)
        self._remember(cond, d)
        return d

    _CMP = {z3.Z3_OP_LT: "lt", z3.Z3_OP_LE: "le", z3.Z3_OP_GT: "gt", z3.Z3_OP_GE: "ge", z3.Z3_OP_EQ: "eq"}

    def _cmp_parts(self, cond):
        neg = False
        while z3.is_not(cond):
            cond = cond.arg(0)
            neg = not neg
        if not z3.is_app(cond) or cond.decl().kind() not in self._CMP or not z3.is_real(cond.arg(0)):
            return None
        return self._CMP[cond.decl().kind()], cond.arg(0) - cond.arg(1), neg

    def _remember(self, cond, d):
        if not Ctx.reuse_decisions:
            return
        parts = self._cmp_parts(cond)
        if parts is not None and len(cond.sexpr()) > 200:  # only worth it for large terms
            op, diff, neg = parts
            self.__dict__.setdefault("_decided", []).append((op, diff, d != neg))

    def _decided_before(self, cond):
        dec = self.__dict__.get("_decided")
        if not dec:
            return None
        parts = self._cmp_parts(cond)
        if parts is None:
            return None
        op, diff, neg = parts
        for op0, diff0, val in dec:
            if op0 == op and poly_zero(diff, diff0):
                return val != neg
        return None

    def implied(self, cond):
        """True / False if the path condition (with assumptions) decides cond, else None. Cached per path."""
        key = cond.get_id()
        cache = self.__dict__.setdefault("_implied", {})
        if key in cache:
            return cache[key][1]
        t = self._check(cond, timeout_ms=2000)
        if t == "unsat":
            r = False
        else:
            f = self._check(z3.Not(cond), timeout_ms=2000)
            r = True if f == "unsat" else None
        cache[key] = (cond, r)
        return r

    def choose(self, n, label="choice"):
        """Symbolic choice among range(n) realised as forks (finite-domain variable)."""
        v = z3.Int(f"{label}!{len(self.decisions)}")
        self.assume(z3.And(v >= 0, v < n))
        for k in range(n - 1):
            if self.branch(v == k):
                return k
        return n - 1

    # ------------------------------------------------------------------ deciding
    def prove(self, goal, timeout_ms=None, extra=()):
        """Return ('unsat'|'sat'|'unknown', model|None) for pc ∧ assumptions ∧ extra ∧ ¬goal."""
        goal = getattr(goal, "e", goal)
        if isinstance(goal, bool):
            goal = z3.BoolVal(goal)
        goal = z3.simplify(goal)
        if z3.is_true(goal):
            self.stats.prove["unsat"] += 1
            return "unsat", None
        s = z3.Solver()
        s.set("timeout", timeout_ms or PROVE_TIMEOUT_MS)
        # hypothesis = slice of (pc + assumptions) sharing variables with the goal, plus those extra axioms that
        # only speak about variables of the slice.  Dropping hypotheses is sound for an unsat verdict; a sat
        # verdict is re-checked against everything below before it is reported.
        allc = [(c, frozenset(free_vars(c))) for c in list(self.pc) + list(self.assumptions)]
        vs = set(free_vars(goal))
        chosen = [False] * len(allc)
        changed = True
        while changed:
            changed = False
            for i, (c, cv) in enumerate(allc):
                if not chosen[i] and (not cv or (cv & vs)):
                    chosen[i] = True
                    vs |= cv
                    changed = True
        sliced = not all(chosen)
        for (c, _), ch in zip(allc, chosen):
            if ch:
                s.add(c)
        for e in extra:
            if not sliced or set(free_vars(e)) <= vs:
                s.add(e)
        s.add(z3.Not(goal))
        budget = timeout_ms or PROVE_TIMEOUT_MS

        def job():
            """check; a sat verdict of the slice is confirmed against the complete hypothesis set. -> (status, model|None)"""
            r_ = str(s.check())
            if r_ != "sat":
                return r_, None
            if sliced:
                s2 = z3.Solver()
                s2.set("timeout", budget)
                for c, _ in allc:
                    s2.add(c)
                for e in extra:
                    s2.add(e)
                s2.add(z3.Not(goal))
                r2 = str(s2.check())
                if r2 == "unsat":
                    return "unsat", None
                if r2 == "sat":
                    return "sat", self._generic_model(s2)
            return "sat", self._generic_model(s)

        t0 = time.time()
        if FORK_PROVE and any(is_nonlinear(a) for a in s.assertions()):
            # z3's nlsat sometimes honours neither its timeout nor an interrupt: the search runs in a forked child that the
            # parent kills at a hard wall-clock limit (-> unknown = inconclusive); the model comes back as plain values
            r, m = forked(lambda: _freeze(job()), 2.0 * budget / 1000 + 8)
        else:
            r, m = job()  # linear arithmetic / boolean structure: the solver's own timeout is reliable
        self.stats.solver_s += time.time() - t0
        self.stats.prove[r] += 1
        return r, m

    reuse_decisions = False  # opt-in (relational harnesses with huge branch conditions): reuse decisions by normal form
    generic_models = True  # class-level switch; harnesses whose replays pick their own numbers turn it off

    def _generic_model(self, s, max_vars=80):
        if not Ctx.generic_models:
            return s.model()
        return self._generic_model_impl(s, max_vars)

    @staticmethod
    def _generic_model_impl(s, max_vars=80):
        """Counterexamples with generic numbers: pin as many variables as possible to pseudo-random
        values (z3 likes zeros, which make matrices singular and replays meaningless)."""
        m = s.model()
        names = {}
        for a in s.assertions():
            free_vars(a, names)
        s.set("timeout", 500)
        t_end = time.time() + 8.0
        for name in sorted(names)[:max_vars]:
            if time.time() > t_end:
                break
            v = names[name]
            if not z3.is_real(v) or "!" in name:
                continue
            val = default_value(name)
            n, d = val.as_integer_ratio()
            s.push()
            s.add(v == z3.Q(n, d))
            if str(hard_check(s, 3)) == "sat":
                m = s.model()
            else:
                s.pop()
        return m

    def model(self, extra=()):
        """A model of the path condition with all assumptions (vacuity witness / validation point), or None."""
        t0 = time.time()
        self.solver.push()
        self.solver.set("timeout", MODEL_TIMEOUT_MS)
        for e in self.assumptions:
            if z3.is_distinct(e) or (z3.is_not(e) and z3.is_eq(e.arg(0))):
                self.solver.add(e)  # denominators (kept out of the incremental solver otherwise)
        for e in extra:
            self.solver.add(e)
        self.last_model_status = str(hard_check(self.solver, 1.5 * MODEL_TIMEOUT_MS / 1000 + 3))
        m = self.solver.model() if self.last_model_status == "sat" else None
        self.solver.pop()
        if self.last_model_status == "unknown":
            # without the denominator disequalities: still a witness that the path itself is not vacuous
            self.solver.push()
            for e in extra:
                self.solver.add(e)
            r = str(hard_check(self.solver, 1.5 * MODEL_TIMEOUT_MS / 1000 + 3))
            if r == "sat":
                self.last_model_status = "sat-without-denominators"
                m = self.solver.model()
            self.solver.pop()
        self.stats.solver_s += time.time() - t0
        return m


def explore(fn, stats: Stats | None = None, max_paths=20000):
    """Run fn(ctx) on every feasible path. Yields (ctx, ('ok', value) | ('exc', exception))."""
    stats = stats if stats is not None else Stats()
    work = [[]]
    n = 0
    while work:
        if stats.stop:
            break  # counterexamples already in hand: no need to enumerate the remaining paths of this configuration
        prefix = work.pop()
        ctx = Ctx(prefix, stats)
        Ctx.cur = ctx
        try:
            try:
                res = ("ok", fn(ctx))
            except InfeasiblePath:
                work.extend(ctx.pending)
                continue
            except (Concretisation, Unsupported):
                raise
            except Exception as ex:  # noqa: BLE001 - exceptions are outcomes
                res = ("exc", ex)
        finally:
            Ctx.cur = None
        work.extend(ctx.pending)
        n += 1
        stats.paths += 1
        if n > max_paths:
            raise PathCap(f"more than {max_paths} paths")
        Ctx.cur = ctx
        try:
            yield ctx, res
        finally:
            Ctx.cur = None


# ---------------------------------------------------------------------- evaluation
_MATH = {
    "exp": math.exp,
    "log": math.log,
    "sqrt": math.sqrt,
    "sin": math.sin,
    "cos": math.cos,
    "erf": math.erf,
}


def _erfcx(x):
    from scipy.special import erfcx

    return float(erfcx(x))


def model_value(m, var, default=0.0):
    v = m.eval(var, model_completion=True)
    return z3_to_float(v)


def z3_to_float(v):
    if z3.is_rational_value(v):
        return float(Fraction(v.numerator_as_long(), v.denominator_as_long()))
    if z3.is_algebraic_value(v):
        return z3_to_float(v.approx(30))
    if z3.is_int_value(v):
        return float(v.as_long())
    raise ValueError(f"not a value: {v}")


def evalf(term, env, cache=None):
    """Evaluate a z3 real/bool term with floats; env maps variable name -> float.

    Uninterpreted transcendental functions are interpreted by the real math functions.
    """
    if cache is None:
        cache = {}
    key = term.get_id()
    if key in cache:
        return cache[key]
    r = _evalf(term, env, cache)
    cache[key] = r
    return r


def _evalf(t, env, cache):
    if z3.is_rational_value(t) or z3.is_algebraic_value(t) or z3.is_int_value(t):
        return z3_to_float(t)
    if z3.is_true(t):
        return True
    if z3.is_false(t):
        return False
    k = t.decl().kind()
    ch = t.children()
    if k == z3.Z3_OP_UNINTERPRETED:
        name = t.decl().name()
        if not ch:
            if name == "sqrt2!const":
                return math.sqrt(2.0)
            return env[name]
        a = evalf(ch[0], env, cache)
        if name == "erfcx":
            return _erfcx(a)
        return _MATH[name](a)
    ev = [evalf(c, env, cache) for c in ch] if k != z3.Z3_OP_ITE else None
    if k == z3.Z3_OP_ADD:
        return sum(ev)
    if k == z3.Z3_OP_MUL:
        r = 1.0
        for x in ev:
            r *= x
        return r
    if k == z3.Z3_OP_SUB:
        r = ev[0]
        for x in ev[1:]:
            r -= x
        return r
    if k == z3.Z3_OP_UMINUS:
        return -ev[0]
    if k in (z3.Z3_OP_DIV, z3.Z3_OP_IDIV):
        return ev[0] / ev[1]
    if k == z3.Z3_OP_POWER:
        return ev[0] ** ev[1]
    if k == z3.Z3_OP_TO_REAL:
        return float(ev[0])
    if k == z3.Z3_OP_ITE:
        c = evalf(ch[0], env, cache)
        return evalf(ch[1] if c else ch[2], env, cache)
    if k == z3.Z3_OP_LE:
        return ev[0] <= ev[1]
    if k == z3.Z3_OP_LT:
        return ev[0] < ev[1]
    if k == z3.Z3_OP_GE:
        return ev[0] >= ev[1]
    if k == z3.Z3_OP_GT:
        return ev[0] > ev[1]
    if k == z3.Z3_OP_EQ:
        return ev[0] == ev[1]
    if k == z3.Z3_OP_DISTINCT:
        return len(set(ev)) == len(ev)
    if k == z3.Z3_OP_NOT:
        return not ev[0]
    if k == z3.Z3_OP_AND:
        return all(ev)
    if k == z3.Z3_OP_OR:
        return any(ev)
    if k == z3.Z3_OP_IMPLIES:
        return (not ev[0]) or ev[1]
    raise Unsupported(f"evalf: {t.decl()} kind {k}")


_FV_CACHE = {}


def free_vars(term, acc=None, seen=None):
    """name -> constant for the uninterpreted constants of a term (memoised per term when called plainly)."""
    if acc is None and seen is None:
        k = term.get_id()
        hit = _FV_CACHE.get(k)
        if hit is not None and hit[0].eq(term):
            return hit[1]
        r = free_vars(term, {}, set())
        if len(_FV_CACHE) > 200000:
            _FV_CACHE.clear()
        _FV_CACHE[k] = (term, r)
        return r
    acc = acc if acc is not None else {}
    seen = seen if seen is not None else set()
    stack = [term]
    while stack:
        t = stack.pop()
        if t.get_id() in seen:
            continue
        seen.add(t.get_id())
        if z3.is_const(t) and t.decl().kind() == z3.Z3_OP_UNINTERPRETED:
            acc[t.decl().name()] = t
        else:
            stack.extend(t.children())
    return acc


_NL_CACHE: dict = {}


def is_nonlinear(term):
    """True if the term multiplies / divides two non-numeral sub-terms, uses a power or applies an uninterpreted function -
    the queries on which nlsat can overrun every limit; linear arithmetic and pure boolean structure never do."""
    k = term.get_id()
    hit = _NL_CACHE.get(k)
    if hit is not None and hit[0].eq(term):
        return hit[1]
    res = False
    seen = set()
    stack = [term]
    while stack and not res:
        t = stack.pop()
        if t.get_id() in seen:
            continue
        seen.add(t.get_id())
        if z3.is_app(t):
            kind = t.decl().kind()
            ch = t.children()
            if kind == z3.Z3_OP_MUL:
                if sum(1 for c in ch if not (z3.is_rational_value(c) or z3.is_int_value(c) or z3.is_algebraic_value(c))) >= 2:
                    res = True
            elif kind in (z3.Z3_OP_DIV, z3.Z3_OP_IDIV, z3.Z3_OP_MOD, z3.Z3_OP_REM):
                if not (z3.is_rational_value(ch[1]) or z3.is_int_value(ch[1])):
                    res = True
            elif kind == z3.Z3_OP_POWER:
                res = True
            elif kind == z3.Z3_OP_UNINTERPRETED and ch:
                res = True
            stack.extend(ch)
    if len(_NL_CACHE) > 200000:
        _NL_CACHE.clear()
    _NL_CACHE[k] = (term, res)
    return res


# ---------------------------------------------------------------------- rational normal form
def ratnorm(t, cache=None):
    """(num, den) with t == num/den, both division-free (ITE / UF applications are atoms whose
    arguments are normalised recursively only through z3.simplify)."""
    if cache is None:
        cache = {}
    k = t.get_id()
    if k in cache:
        return cache[k]
    one = z3.RealVal(1)
    kind = t.decl().kind()
    ch = t.children()
    if kind in (z3.Z3_OP_DIV,):
        (an, ad), (bn, bd) = ratnorm(ch[0], cache), ratnorm(ch[1], cache)
        r = (an if bd.eq(one) else an * bd, bn if ad.eq(one) else ad * bn)
    elif kind == z3.Z3_OP_ADD:
        parts = [ratnorm(c, cache) for c in ch]
        if all(d.eq(one) for _, d in parts):
            r = (z3.Sum([n for n, _ in parts]), one)
        else:
            num, den = parts[0]
            for n2, d2 in parts[1:]:
                if d2.eq(one):
                    num = num + n2 * den
                elif den.eq(one):
                    num, den = num * d2 + n2, d2
                elif den.eq(d2):
                    num = num + n2
                else:
                    num, den = num * d2 + n2 * den, den * d2
            r = (num, den)
    elif kind == z3.Z3_OP_SUB:
        num, den = ratnorm(ch[0], cache)
        for c in ch[1:]:
            n2, d2 = ratnorm(c, cache)
            if d2.eq(one):
                num = num - n2 * den
            elif den.eq(d2):
                num = num - n2
            else:
                num, den = num * d2 - n2 * den, den * d2
        r = (num, den)
    elif kind == z3.Z3_OP_MUL:
        num, den = one, one
        for c in ch:
            n2, d2 = ratnorm(c, cache)
            num = n2 if num.eq(one) else num * n2
            if not d2.eq(one):
                den = d2 if den.eq(one) else den * d2
        r = (num, den)
    elif kind == z3.Z3_OP_UMINUS:
        n, d = ratnorm(ch[0], cache)
        r = (-n, d)
    else:
        r = (t, one)
    cache[k] = r
    return r


def cross_eq(a, b):
    """Division-free formula equivalent to a == b wherever all denominators are non-zero."""
    (an, ad), (bn, bd) = ratnorm(a), ratnorm(b)
    one = z3.RealVal(1)
    if ad.eq(one) and bd.eq(one):
        return an == bn
    d = _som(_mul(an, bd) - _mul(bn, ad))
    return d == 0


def _som(t):
    """Sum-of-monomials normal form; a second pass removes the unit factors the first one can leave behind."""
    return z3.simplify(z3.simplify(t, som=True), som=True)


def _mul(a, b):
    one = z3.RealVal(1)
    return b if a.eq(one) else a if b.eq(one) else a * b


def poly_zero(a, b):
    """True iff a - b normalises syntactically to 0 (z3 simplifier, sum-of-monomials)."""
    (an, ad), (bn, bd) = ratnorm(a), ratnorm(b)
    d = _som(_mul(an, bd) - _mul(bn, ad))
    return z3.is_rational_value(d) and d.numerator_as_long() == 0


# ---------------------------------------------------------------------- congruence + normal form fast path
class Atomizer:
    """Replaces UF applications / ITEs by constants, two applications getting the same constant iff their
    (recursively atomized) arguments are equal as rational functions.  Sound for proving equalities."""

    def __init__(self, implied=None):
        self.atoms = {}  # function name -> list of (args, const)
        self.cache = {}
        self.n = 0
        self.implied = implied  # optional callback cond -> True/False/None (decides ITE conditions under the pc)

    def run(self, t):
        k = t.get_id()
        if k in self.cache:
            return self.cache[k]
        r = self._run(t)
        self.cache[k] = r
        return r

    def _atom(self, name, args):
        lst = self.atoms.setdefault(name, [])
        for oargs, c in lst:
            if len(oargs) == len(args) and all(
                (z3.is_bool(x) and x.eq(y)) or (not z3.is_bool(x) and poly_zero(x, y)) for x, y in zip(oargs, args)
            ):
                return c
        self.n += 1
        c = z3.Real(f"atom!{self.n}")
        lst.append((args, c))
        return c

    @staticmethod
    def _is_uf(t, name):
        return z3.is_app(t) and t.decl().kind() == z3.Z3_OP_UNINTERPRETED and t.num_args() == 1 and t.decl().name() == name

    def _factors(self, t, out):
        """Flatten a product; erfcx(x) is expanded to exp(x^2) * (1 - erf(x)) on the way."""
        if z3.is_app(t) and t.decl().kind() == z3.Z3_OP_MUL:
            for c in t.children():
                self._factors(c, out)
        elif self._is_uf(t, "erfcx"):
            x = t.arg(0)
            out.append(uf_decl("exp")(x * x))
            out.append(1 - uf_decl("erf")(x))
        else:
            out.append(t)

    def _run(self, t):
        if z3.is_const(t) or z3.is_rational_value(t) or z3.is_algebraic_value(t):
            return t
        kind = t.decl().kind()
        if self._is_uf(t, "erfcx"):
            x = t.arg(0)
            return self.run(uf_decl("exp")(x * x) * (1 - uf_decl("erf")(x)))
        if kind == z3.Z3_OP_MUL:
            fs = []
            self._factors(t, fs)
            exps = [f for f in fs if self._is_uf(f, "exp")]
            if len(exps) >= 2:  # exp(a) exp(b) = exp(a + b)
                rest = [f for f in fs if not self._is_uf(f, "exp")]
                merged = uf_decl("exp")(z3.Sum([e.arg(0) for e in exps]))
                fs = rest + [merged]
            parts = [self.run(f) if not (z3.is_app(f) and f.decl().kind() == z3.Z3_OP_MUL) else f for f in fs]
            r = parts[0]
            for q in parts[1:]:
                r = r * q
            return r
        if self._is_uf(t, "erf"):  # erf is odd: erf(-x) = -erf(x)
            arg = self.run(t.arg(0))
            for oargs, c in self.atoms.setdefault("erf", []):
                if poly_zero(oargs[0], arg):
                    return c
                if poly_zero(oargs[0], -arg):
                    return -c
            a0 = z3.simplify(arg)
            if z3.is_rational_value(a0) and a0.numerator_as_long() == 0:
                return z3.RealVal(0)
            return self._atom("erf", [arg])
        if kind == z3.Z3_OP_ITE and self.implied is not None:
            c = t.children()[0]
            d = self.implied(c)
            if d is True:
                return self.run(t.children()[1])
            if d is False:
                return self.run(t.children()[2])
        ch = [self.run(c) for c in t.children()]
        if kind == z3.Z3_OP_UNINTERPRETED:
            if len(ch) == 1:
                a0 = z3.simplify(ch[0])
                if z3.is_rational_value(a0):
                    folded = _fold_const(t.decl().name(), a0)
                    if folded is not None:
                        return folded
            return self._atom(t.decl().name(), ch)
        if kind == z3.Z3_OP_ITE:
            return self._atom("ite", [z3.simplify(ch[0]), ch[1], ch[2]])
        if all(a.eq(b) for a, b in zip(ch, t.children())):
            return t
        return t.decl()(*ch)


def _fold_const(name, a0):
    """Exact values of the transcendental UFs at the few rational points where they are rational."""
    num, den = a0.numerator_as_long(), a0.denominator_as_long()
    if num == 0:
        return {"exp": z3.RealVal(1), "sqrt": z3.RealVal(0), "sin": z3.RealVal(0), "cos": z3.RealVal(1),
                "erf": z3.RealVal(0), "erfcx": z3.RealVal(1)}.get(name)
    if name == "log" and num == den:
        return z3.RealVal(0)
    if name == "sqrt" and num > 0:
        import math

        rn, rd = math.isqrt(num), math.isqrt(den)
        if rn * rn == num and rd * rd == den:
            return z3.Q(rn, rd)
    return None


def fast_valid(goal, implied=None):
    """True if the goal is valid by normal form + congruence alone (equalities / conjunctions)."""
    if z3.is_true(goal):
        return True
    if not z3.is_app(goal):
        return False
    k = goal.decl().kind()
    if k == z3.Z3_OP_AND:
        return all(fast_valid(c, implied) for c in goal.children())
    if k == z3.Z3_OP_EQ:
        a, b = goal.children()
        if not z3.is_real(a) and not z3.is_int(a):
            return False
        at = Atomizer(implied)
        try:
            return poly_zero(at.run(a), at.run(b))
        except z3.Z3Exception:
            return False
    return False


def by_combination(goal, hyps, multipliers):
    """Certificate check: goal (an equality a == b) follows from one hypothesis equality e_l == e_r by
    a - b == m * (e_l - e_r) for a hinted multiplier m (identity decided by the simplifier normal form).
    Sound: the identity is polynomial, the hypothesis is assumed; returns the (hyp index, multiplier) or None."""
    if not (z3.is_app(goal) and goal.decl().kind() == z3.Z3_OP_EQ):
        return None
    a, b = goal.children()
    (an, ad), (bn, bd) = ratnorm(a), ratnorm(b)
    diff = an * bd - bn * ad
    den = ad * bd
    for i, h in enumerate(hyps):
        if not (z3.is_app(h) and h.decl().kind() == z3.Z3_OP_EQ):
            continue
        hl, hr = h.children()
        (hn, hd), (gn, gd) = ratnorm(hl), ratnorm(hr)
        e = hn * gd - gn * hd  # hypothesis: e == 0 (denominators non-zero)
        for m in multipliers:
            # diff/den == m * e/(hd*gd)  <=>  diff * hd * gd - m * e * den == 0
            d = _som(diff * hd * gd - m * e * den)
            if z3.is_rational_value(d) and d.numerator_as_long() == 0:
                return i, m
    return None
